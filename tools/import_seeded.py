#!/usr/bin/env python3
"""usage: import_seeded.py <src dir with patch.diff demo.rs notes.md> <name> <property> '<verification line>' '<caught by ...>'
Copies a verified seeded break into /verif/seeded/<name>/ and writes meta.json."""
import sys, os, json, shutil, re
src, name, prop, verif, caught = sys.argv[1:6]
dst = os.path.join(os.path.dirname(os.path.dirname(os.path.abspath(__file__))), "seeded", name)
os.makedirs(dst, exist_ok=True)
for f in ("patch.diff", "demo.rs"):
    shutil.copy(os.path.join(src, f), os.path.join(dst, f))
notes = open(os.path.join(src, "notes.md")).read() if os.path.exists(os.path.join(src, "notes.md")) else ""
files = sorted(set(re.findall(r"^\+\+\+ b/(\S+)", open(os.path.join(dst, "patch.diff")).read(), re.M)))
meta = dict(
    name=name,
    breaks_property=prop,
    origin="independent sub-agent given only the property text and a scratch worktree" if not name.startswith("own-") else "written by the author of the checks",
    files_changed=files,
    needs_to_manifest=(re.search(r"(?is)(trigger|needed|manifest)[^\n]*\n(.{0,900})", notes) or [None, None, notes[:900]])[2].strip() if notes else "",
    confirmed_by_me=verif,
    what_i_ran="tools/verify_seeded.sh (scratch worktree /tmp/wt/own: git apply; cargo nextest run --workspace; demo as tests/seeded_demo.rs with and without the patch); tools/try_mutant.sh <patch> <checks> (git -C /repo apply; ./check … --tier quick; git -C /repo checkout -- .)",
    checks_result=caught,
    notes=notes[:6000],
)
json.dump(meta, open(os.path.join(dst, "meta.json"), "w"), indent=1)
print("imported", dst)
