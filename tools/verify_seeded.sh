#!/bin/sh
# usage: tools/verify_seeded.sh <dir with patch.diff and demo.rs>
# Confirms in the scratch worktree /tmp/wt/own: patch applies; full suite passes with it; demo fails with it; demo passes without it.
set -u
d="$1"; W=${W:-/tmp/wt/own}
cd $W || exit 3
git checkout -q -- . ; rm -rf tests
git apply --check "$d/patch.diff" || { echo "RESULT patch does not apply"; exit 1; }
git apply "$d/patch.diff"
suite=$(CARGO_NET_OFFLINE=true cargo nextest run --workspace --no-fail-fast --offline 2>&1 | grep -E '^\s+Summary' | tail -1)
mkdir -p tests; cp "$d/demo.rs" tests/seeded_demo.rs
with=$(CARGO_NET_OFFLINE=true cargo nextest run --offline --test seeded_demo --no-fail-fast 2>&1 | grep -E '^\s+Summary' | tail -1)
rel=""
case "$with" in
  *" failed"*) ;;
  *) # a break that exists only without debug assertions: the demonstration has to run in the release profile
     withr=$(CARGO_NET_OFFLINE=true cargo nextest run --release --offline --test seeded_demo --no-fail-fast 2>&1 | grep -E '^\s+Summary' | tail -1)
     rel=" | demo_with(--release): $withr";;
esac
git checkout -q -- .
without=$(CARGO_NET_OFFLINE=true cargo nextest run --offline --test seeded_demo --no-fail-fast 2>&1 | grep -E '^\s+Summary' | tail -1)
if [ -n "$rel" ]; then
  withoutr=$(CARGO_NET_OFFLINE=true cargo nextest run --release --offline --test seeded_demo --no-fail-fast 2>&1 | grep -E '^\s+Summary' | tail -1)
  rel="$rel | demo_without(--release): $withoutr"
fi
rm -rf tests
echo "RESULT suite_with_mutation: $suite | demo_with: $with | demo_without: $without$rel"
