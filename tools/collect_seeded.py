#!/usr/bin/env python3
"""Parses the batch logs written while testing seeded breaks and imports every verified break
into /verif/seeded/<name>/ (patch.diff, demo.rs, meta.json). Usage: collect_seeded.py <log>..."""
import sys, re, os, json, shutil
ROOT = os.path.dirname(os.path.dirname(os.path.abspath(__file__)))
entries = {}
for log in sys.argv[1:]:
    cur = None
    for line in open(log, errors="replace"):
        line = line.rstrip("\n")
        m = re.match(r"^######## (\S+)/(\S+)", line)
        if m:
            cur = f"{m.group(1)}-{m.group(2)}"
            old = entries.get(cur)
            entries[cur] = dict(src=(m.group(1), m.group(2)), verify=old["verify"] if old else None, checks=[],
                                runs=(old["runs"] if old else []) + [dict(log=os.path.basename(log), checks=[])])
            continue
        if cur is None:
            continue
        if line.startswith("RESULT"):
            entries[cur]["verify"] = re.sub(r"Summary \[\s*[\d.]+s\]\s*", "", line[7:]).strip()
        m = re.match(r"^== (C\d+) rc=(\d+)", line)
        if m:
            entries[cur]["checks"].append(dict(check=m.group(1), rc=int(m.group(2)), lines=[]))
            entries[cur]["runs"][-1]["checks"].append(f"{m.group(1)}:exit{m.group(2)}")
        elif entries[cur]["checks"] and (line.startswith("VIOLATION") or line.startswith("  engine") or line.startswith("HELD") or line.startswith("INCONCLUSIVE")):
            entries[cur]["checks"][-1]["lines"].append(line.strip()[:300])
NOTES = {
 'C05-r5-2': ('not claimed - trigger outside the property as the checks read it', 'the break shows only when predecessors() is called on a DijkstraPred that has already been advanced; on the UNCHANGED tree predecessors() after two or more steps is itself incomplete (the vertices already yielded keep None), so C05 is read as a statement about fresh searches; completeness after exactly one step holds on the unchanged tree only by accident of the implementation, and demanding it would raise an alarm on a harmless refactoring'),
 'own-m07_tarjan_lowlink': ('equivalent mutant - no violation to detect', 'low_link[v] <= index[v] for an on-stack v, so the partition is still right'),
 'own-m08_johnson_noclear': ('equivalent mutant - no violation to detect', 'for a single circuits() call the per-start reset is redundant (the independent C10 agents reached the same conclusion; a second call on the same object is a different break, C10-r2-1, which is caught)'),
 'own-m10_istournament_shortcut': ('equivalent mutant - no violation to detect', 'size == n(n-1)/2 and every pair joined at least once implies exactly once'),
 'own-m11_nextf64_mask': ('equivalent mutant - no violation to detect', 'mantissa bit 52 ORs into the lowest exponent bit of 1023, which is already set'),
 'own-m13_searchby_mark_s': ('equivalent mutant - no violation to detect', 'a chain that returns to the start ends one step earlier with the same answer None'),
 'own-m14_am_union_partition': ('equivalent mutant - no violation to detect', 'any monotone choice of merge-path split points tiles both inputs; result and tiling stay right'),
 'own-m20_el_from_drop_last': ('missed by the first version, caught after strengthening', 'needs a complete digraph of order > 40 (an artificial trigger); C16 now also draws dense families at orders 41-70 and reports EdgeList::from(AdjacencyList):arcs'),
}
table = []
for name, e in sorted(entries.items()):
    a, k = e["src"]
    own = a == "own"
    src = f"/tmp/wt/out/{a}/{k}" if not own else None
    dst = os.path.join(ROOT, "seeded", name if not own else f"own-{k}")
    os.makedirs(dst, exist_ok=True)
    if own:
        shutil.copy(f"/tmp/wt/ownout/{k}.diff", os.path.join(dst, "patch.diff"))
        notes = ""
    else:
        for f in ("patch.diff", "demo.rs"):
            shutil.copy(os.path.join(src, f), os.path.join(dst, f))
        notes = open(os.path.join(src, "notes.md")).read() if os.path.exists(os.path.join(src, "notes.md")) else ""
    files = sorted(set(re.findall(r"^\+\+\+ b/(\S+)", open(os.path.join(dst, "patch.diff")).read(), re.M)))
    caught = [c for c in e["checks"] if c["rc"] == 1]
    missed = [c for c in e["checks"] if c["rc"] == 0]
    kinds = []
    for c in caught:
        for l in c["lines"]:
            m = re.search(r"engine=(\S+) kind=(.*?) cases=(\d+)", l)
            if m:
                kinds.append(f"{c['check']}/{m.group(1)}: {m.group(2)} ({m.group(3)} cases)")
    meta = dict(
        name=os.path.basename(dst),
        breaks_property=a if not own else "see checks_run",
        origin=("independent sub-agent that was given only the text of the property and its own scratch worktree" if not own else "written by the author of the checks as a sensitivity probe; NOT verified against the test suite (some are equivalent mutants, see DESIGN.md §8)"),
        files_changed=files,
        needs_to_manifest=notes[:3000] if notes else "",
        confirmed_by_me=e["verify"] or ("not verified against the suite" if own else "verification line missing"),
        what_i_ran=("tools/verify_seeded.sh <dir>: scratch worktree /tmp/wt/own, git apply patch.diff, cargo nextest run --workspace --no-fail-fast --offline (whole suite), then demo.rs as tests/seeded_demo.rs with the patch and again after git checkout; " if not own else "")
        + "tools/try_mutant_iso.sh / tools/try_mutant.sh <patch> <checks>: apply the patch to the tree the harness is built from, ./check <id> --tier quick, revert",
        checks_run=[dict(check=c["check"], exit=c["rc"], output=c["lines"][:6]) for c in e["checks"]],
        caught_by=kinds[:8],
        verdict="caught" if caught else ("missed" if missed else "not run"),
        history=[r for r in e["runs"] if r["checks"]],
    )
    # the honest first-run outcome of the check of the property the break was written against
    if not own:
        firsts = [c for r in e["runs"] for c in r["checks"] if c.startswith(a + ":")]
        meta["own_check_first_run"] = firsts[0] if firsts else "not run"
    if meta["name"] in NOTES:
        meta["verdict"], meta["note"] = NOTES[meta["name"]]
    json.dump(meta, open(os.path.join(dst, "meta.json"), "w"), indent=1)
    table.append((meta["name"], ", ".join(files), meta["verdict"], "; ".join(kinds[:2])))
for row in table:
    print(" | ".join(row)[:260])
