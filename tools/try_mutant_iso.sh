#!/bin/sh
# Development helper: like try_mutant.sh but fully isolated from /repo and /verif:
# a snapshot of /verif (taken by `tools/try_mutant_iso.sh --snap`) under /tmp/scratch/vsnap whose harness
# depends on the scratch worktree /tmp/wt/mut. usage: try_mutant_iso.sh <patch.diff> <Cxx>...
set -u
S=${ISO_SNAP:-/tmp/scratch/vsnap}
W=${ISO_WT:-/tmp/wt/mut}
if [ "$1" = "--snap" ]; then
  mkdir -p $S && rsync -a --delete --exclude target --exclude .git --exclude replays /verif/ $S/ && mkdir -p $S/replays
  sed -i "s#path = \"/repo\"#path = \"$W\"#" $S/harness/Cargo.toml
  sed -i "s#\"/repo/src/#\"$W/src/#; s#(/repo/src/#($W/src/#" $S/driver/engines.py
  echo "snapshot taken"; exit 0
fi
patch="$1"; shift
cd $W || exit 3
git checkout -q -- .
git apply "$patch" || { echo "patch does not apply"; exit 3; }
cd $S
for p in "$@"; do
  out=$(VERIF_SEED=${VERIF_SEED:-0} ./check "$p" --tier ${TIER:-quick} 2>/dev/null); rc=$?
  echo "== $p rc=$rc"
  echo "$out" | grep -E '^(VIOLATION|INCONCLUSIVE|HELD|KNOWN|  engine|  detail|  case)' | cut -c1-500 | head -${LINES_MAX:-14}
done
git -C $W checkout -q -- .
