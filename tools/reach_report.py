#!/usr/bin/env python3
"""Reach report (evidence of reach, never a verdict): which functions and lines of /repo/src are
executed by a slice of the quick workloads of ALL twenty checks taken together, from an
-Cinstrument-coverage build of the harness. Writes reach/REACH.md and reach/reach.json.

Usage: tools/reach_report.py [cases-per-parameter-set, default 4000]"""
import json, os, subprocess, sys, shutil, re, collections
ROOT = os.path.dirname(os.path.dirname(os.path.abspath(__file__)))
sys.path.insert(0, os.path.join(ROOT, "driver"))
import engines, plans  # noqa: E402

PER = int(sys.argv[1]) if len(sys.argv) > 1 else 4000
SEED = int(os.environ.get("VERIF_SEED", "0"))


def main():
    prof, cov = engines.llvm_tool("llvm-profdata"), engines.llvm_tool("llvm-cov")
    if not prof or not cov:
        print("llvm tools not found")
        return 2
    ok, dt, msg = engines.build("cov", lambda *a: None)
    if not ok:
        print("coverage build failed:", msg[-500:])
        return 2
    cdir = os.path.join(engines.TARGET, "tmp", "reach")
    shutil.rmtree(cdir, ignore_errors=True)
    os.makedirs(cdir)
    procs, ran = [], collections.Counter()
    for k in range(1, 21):
        prop = f"C{k:02d}"
        plan = plans.plan(prop, "quick")
        seen = set()
        for j in plan["jobs"]:
            if j["engine"] not in ("rel", "chk", "asan"):
                continue
            params = {a: b for a, b in j.get("params", {}).items() if a not in ("delay", "noalloc")}
            key = json.dumps(params, sort_keys=True)
            if key in seen:
                continue
            seen.add(key)
            lo = j.get("lo", 0)
            hi = min(j["hi"], lo + PER)
            args = [prop, "--seed", str(SEED), "--lo", str(lo), "--hi", str(hi)]
            for a, b in sorted(params.items()):
                args += ["-p", f"{a}={b}"]
            argv, env = engines.command("cov", args)
            env["LLVM_PROFILE_FILE"] = os.path.join(cdir, f"{prop}-%p.profraw")
            procs.append((prop, subprocess.Popen(argv, cwd=engines.HARNESS, env=env, stdout=subprocess.DEVNULL, stderr=subprocess.DEVNULL)))
            ran[prop] += hi - lo
            if len(procs) % 16 == 0:
                for _, p in procs[-16:]:
                    try:
                        p.wait(timeout=1800)
                    except subprocess.TimeoutExpired:
                        p.kill()
    for _, p in procs:
        try:
            p.wait(timeout=1800)
        except subprocess.TimeoutExpired:
            p.kill()
    raws = [os.path.join(cdir, f) for f in os.listdir(cdir) if f.endswith(".profraw")]
    merged = os.path.join(cdir, "all.profdata")
    subprocess.run([prof, "merge", "-sparse"] + raws + ["-o", merged], check=True)
    out = subprocess.run([cov, "export", f"-instr-profile={merged}", engines.ENGINES["cov"]["bin"]], stdout=subprocess.PIPE, stderr=subprocess.DEVNULL, text=True)
    data = json.loads(out.stdout)["data"][0]
    files = {}
    for f in data["files"]:
        fn = f["filename"]
        if "/repo/src/" not in fn:
            continue
        rel = fn.split("/repo/")[1]
        # segments: [line, col, count, has_count, is_region_entry, is_gap]
        line_hits = {}
        for seg in f["segments"]:
            line, col, count, has_count, is_entry, is_gap = seg[:6]
            if has_count and is_entry and not is_gap:
                line_hits[line] = max(line_hits.get(line, 0), count)
        s = f["summary"]
        files[rel] = dict(lines=s["lines"]["count"], lines_covered=s["lines"]["covered"],
                          functions=s["functions"]["count"], functions_covered=s["functions"]["covered"],
                          regions=s["regions"]["count"], regions_covered=s["regions"]["covered"],
                          unexecuted_region_lines=sorted(l for l, c in line_hits.items() if c == 0))
    # functions: a generic function has one record per instantiation; it is reached if any is
    fns = collections.defaultdict(lambda: [0, 0, None])
    demangle = shutil.which("rustfilt")
    for fn in data["functions"]:
        src = [x for x in fn["filenames"] if "/repo/src/" in x]
        if not src:
            continue
        r = fn["regions"][0]
        key = (src[0].split("/repo/")[1], r[0])
        fns[key][0] += 1
        fns[key][1] += fn["count"]
        fns[key][2] = fn["name"]
    unreached = sorted(k for k, v in fns.items() if v[1] == 0)
    os.makedirs(os.path.join(ROOT, "reach"), exist_ok=True)
    json.dump(dict(seed=SEED, cases_per_parameter_set=PER, cases_run=dict(ran), files=files,
                   functions_total=len(fns), functions_unreached=[f"{a}:{b}" for a, b in unreached]),
              open(os.path.join(ROOT, "reach", "reach.json"), "w"), indent=1)
    with open(os.path.join(ROOT, "reach", "REACH.md"), "w") as o:
        tl = sum(f["lines"] for f in files.values())
        tc = sum(f["lines_covered"] for f in files.values())
        o.write("# Reach of the workloads over /repo/src (evidence of reach, not a verdict)\n\n")
        o.write(f"Generated by `tools/reach_report.py {PER}` at VERIF_SEED={SEED}: the first {PER} cases of every distinct parameter set of every\n"
                f"quick plan (C01-C20), run in a `-Cinstrument-coverage` build of the harness; profiles merged.\n"
                f"Cases run: {sum(ran.values())}. Lines of `src/` compiled into the harness: {tl}, executed: {tc} ({100.0 * tc / max(1, tl):.1f} %).\n"
                f"Functions (by definition site, any instantiation): {len(fns)}, never executed: {len(unreached)}.\n"
                "Test modules (`#[cfg(test)]`) and doc examples are not compiled into the harness and do not appear.\n\n")
        o.write("## Functions never executed\n\n")
        for a, b in unreached:
            try:
                text = open(os.path.join("/repo", a)).read().split("\n")[b - 1].strip()
            except Exception:
                text = "?"
            o.write(f"- `{a}:{b}` `{text[:110]}`\n")
        o.write("\n## Per file\n\n| file | lines | executed | functions | executed | lines holding a never-executed region |\n|---|---|---|---|---|---|\n")
        for rel, f in sorted(files.items()):
            ul = f["unexecuted_region_lines"]
            o.write(f"| {rel} | {f['lines']} | {f['lines_covered']} | {f['functions']} | {f['functions_covered']} | {' '.join(map(str, ul[:40]))}{' …' if len(ul) > 40 else ''} |\n")
    print(f"lines {tc}/{tl}, functions unreached {len(unreached)}/{len(fns)}; see reach/REACH.md")
    shutil.rmtree(cdir, ignore_errors=True)
    return 0


if __name__ == "__main__":
    sys.exit(main())
