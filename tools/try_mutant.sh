#!/bin/sh
# usage: tools/try_mutant.sh <patch.diff> <Cxx> [Cyy ...]   (applies to /repo, runs quick checks, reverts)
set -u
patch="$1"; shift
cd /repo || exit 3
if [ -n "$(git status --porcelain --untracked-files=no)" ]; then echo "repo dirty"; exit 3; fi
git apply "$patch" || { echo "patch does not apply"; exit 3; }
cd /verif
for p in "$@"; do
  out=$(VERIF_SEED=${VERIF_SEED:-0} ./check "$p" --tier ${TIER:-quick} 2>/dev/null); rc=$?
  echo "== $p rc=$rc"
  echo "$out" | grep -E '^(VIOLATION|INCONCLUSIVE|HELD|KNOWN|  engine|  detail|  case)' | cut -c1-600 | head -${LINES_MAX:-14}
done
git -C /repo checkout -- . 
git -C /repo status --porcelain --untracked-files=no | head
