#!/usr/bin/env python3
"""Prints the markdown table of seeded breaks (DESIGN.md §8) from seeded/*/meta.json."""
import json, glob, os, re
ROOT = os.path.dirname(os.path.dirname(os.path.abspath(__file__)))
rows = []
for f in sorted(glob.glob(os.path.join(ROOT, "seeded", "*", "meta.json"))):
    d = json.load(open(f))
    files = ", ".join(os.path.basename(os.path.dirname(x)) + "/" + os.path.basename(x) if x.endswith("mod.rs") else os.path.basename(x) for x in d["files_changed"])
    caught = "; ".join(re.sub(r" at /\S+", "", c) for c in d.get("caught_by", [])[:2])
    verdict = d["verdict"]
    note = d.get("note", "")
    first = {"exit1": "caught", "exit0": "missed", "exit2": "inconclusive"}.get(d.get("own_check_first_run", "").split(":")[-1], "-")
    rows.append(f"| {d['name']} | {files} | {first} | {verdict} | {caught or note} |")
print("| seeded break | file(s) changed | own check, first recorded run | now | first kinds reported (check/engine: kind (cases)) |")
print("|---|---|---|---|---|")
print("\n".join(rows))
