#!/usr/bin/env python3
"""Regenerates MANIFEST.json from driver/plans.py and the table below."""
import json, os, sys
sys.path.insert(0, os.path.join(os.path.dirname(os.path.abspath(__file__)), "driver"))
import plans

HOOK_COMMITS = ["30002795f318b560c5ce91f03fd03487c5aad33a"]

TECH = {
    "C01": "runtime monitor: mutation histories replayed on the real types and on an executable reference model, full observation after every call; ASan, debug UB-precondition/overflow checks (+ Miri in thorough)",
    "C02": "runtime monitor: every query compared with a reference model over generated digraphs (all five types, non-contiguous maps); ASan, debug UB checks (+ Miri)",
    "C03": "runtime monitor: Dijkstra results and item sequences vs Bellman-Ford on a reference model (superseded-heap-entry, scaled-weight and tie strata); ASan, debug UB checks (+ Miri)",
    "C04": "runtime monitor: BFS sequences/distances vs reference BFS levels in all five types; ASan, debug UB checks (+ Miri)",
    "C05": "runtime monitor: predecessor trees, shortest paths and cycles judged against reference distances and the arc set; ASan, debug UB checks (+ Miri)",
    "C06": "runtime monitor: online trace checker of the depth-first preorder rule + reachability from the model; known finding classified by exact signature; ASan, debug UB checks (+ Miri)",
    "C07": "runtime monitor: BellmanFordMoore from every source vs Bellman-Ford on a reference model, arc counts of every residue mod 4, scaled weights, repeated calls; ASan, debug UB checks (+ Miri)",
    "C08": "runtime monitor: every Floyd-Warshall entry vs Bellman-Ford on a reference model and vs BellmanFordMoore, repeated calls; ASan, debug UB checks (+ Miri)",
    "C09": "runtime monitor: Tarjan components vs classes of mutual reachability on a reference model (all types, non-contiguous maps, deep-recursion inputs, repeated calls and clones); ASan, debug UB checks (+ Miri)",
    "C10": "runtime monitor: Johnson75 output vs brute-force circuit enumeration on a reference model, exhaustive for order <= 4 (5 in thorough); ASan, debug UB checks (+ Miri)",
    "C11": "runtime monitor: set-algebra model comparison + algebraic laws, CPU-affinity sweep with seeded delays, tiling monitor over a hook event log; ASan, Miri (3 simulated CPUs), debug UB checks (+ TSan in thorough)",
    "C12": "runtime monitor: predicates vs their definitions on boundary-family digraphs and derived pairs, CPU-affinity sweep + tiling monitor for the parallel is_semicomplete; ASan, Miri, debug UB checks (+ TSan)",
    "C13": "sanitizers as oracle: probe catalogue + random API programs in sharded child processes under ASan+LSan, Miri, debug UB-precondition checks, crash attribution per case; counting-allocator heap-growth monitor (+ TSan in thorough)",
    "C14": "runtime monitor: closed-form comparison of every generator at every order 1..130 (+ larger), all four types, exhaustive for the stated ranges; CPU-affinity sweep + tiling monitor for the parallel complete; ASan, debug UB checks (+ Miri, TSan)",
    "C15": "runtime monitor: structural oracle + repeat-equality + cross-process digest comparison per CPU mask, tiling monitor on the hook log; ASan, Miri (+ more Miri seeds/CPUs and TSan in thorough)",
    "C16": "runtime monitor: conversions and iterator builders compared with a reference model, round trips, chains, invalid inputs must panic; ASan, debug UB checks (+ Miri)",
    "C17": "runtime monitor: the same cases under every CPU mask (taskset) and several delay seeds: model comparison in each, cross-configuration digest comparison, tiling monitor over the hook event log; ASan, Miri with 3 simulated CPUs (+ Miri seeds x CPUs and TSan in thorough)",
    "C18": "runtime monitor: DistanceMatrix metrics vs their definitions over generated matrices (ties, all-infinite rows, Floyd-Warshall outputs); ASan, debug UB checks (+ Miri)",
    "C19": "runtime monitor: search/search_by vs a functional-graph walk, exhaustive for vectors of length <= 5 (6 in thorough) plus long random shapes; bounded-step termination monitor; ASan, debug UB checks (+ Miri)",
    "C20": "runtime monitor: ==, !=, cmp, <,<=,>,>=, Hash, clone, clone_from compared with equality of reference models over pairs of construction histories; ASan, debug UB checks (+ Miri)",
}

def main():
    props = [json.loads(l) for l in open(os.path.join(os.path.dirname(os.path.abspath(__file__)), "properties.jsonl"))]
    checks = []
    na = []
    for p in props:
        pid = p["id"]
        if plans.plan(pid, "quick") is None:
            na.append(dict(property_id=pid, reason="check not built yet in this revision (work in progress; runtime monitoring applies)"))
            continue
        checks.append(dict(
            property_id=pid,
            quick_cmd=f"./check {pid} --tier quick",
            thorough_cmd=f"./check {pid} --tier thorough",
            evidence_file=f"evidence/{pid}.json",
            replay_cmd_template=f"./check {pid} --replay {{path}}",
            engine="gverif",
            level_claimed=dict(
                category="exploration",
                text="Held on the executions observed: generated and hostile workloads run against the real code under a reference-model monitor and sanitizers; counts of cases, comparisons and distinct non-trivial cases are in the evidence file. No claim about inputs or interleavings that were not produced.",
                design_ref="DESIGN.md §6 " + pid,
            ),
            level_note="Trusted: the reference model and monitors in harness/src (no unsafe, no code shared with graaf), rustc/std, sanitizer runtimes, Miri. Assumes the workload generators reach the behaviour in question; evidence lists what was reached.",
            technique=TECH.get(pid, "runtime monitor with reference model + sanitizers"),
        ))
    man = dict(
        version=1,
        setup_cmd="./setup.sh",
        hooks=dict(
            guard="cargo feature `verif` (off by default)",
            enable="the harness crate depends on graaf by path with features = [\"verif\"]; every check rebuilds it from /repo's working tree",
            baseline_off_cmd="cd /repo && (cargo nextest run --workspace --no-fail-fast --offline || cargo test --workspace --no-fail-fast --offline)",
            source_commits=HOOK_COMMITS,
            add_only=True,
        ),
        engines=[dict(name="gverif", path="harness", serves_properties=[c["property_id"] for c in checks],
                      kind_free_text="Rust harness (reference model, workload generators, monitors) compiled against /repo in profiles rel / chk (debug assertions + overflow checks) / asan (+LSan) / tsan (-Zbuild-std) / miri; python driver ./check shards the workload, attributes crashes and sanitizer reports to cases, writes evidence and replays")],
        checks=checks,
        notes="Technique family: runtime monitoring and sanitizers. Verdicts are three-valued: exit 0 held / exit 1 VIOLATION / exit 2 INCONCLUSIVE (never reported as a violation). Known findings: KNOWN_FINDINGS.txt.",
        not_applicable=na,
    )
    json.dump(man, open(os.path.join(os.path.dirname(os.path.abspath(__file__)), "MANIFEST.json"), "w"), indent=1)
    print(f"{len(checks)} checks, {len(na)} not applicable")

main()
