"""Per-property workloads: which engines, how many cases, which parameters.

A case is a pure function of (property, VERIF_SEED, index, params); engines get
disjoint index ranges so that every engine adds distinct cases.
"""

COMMON_ASSUMPTIONS = [
    "the reference model (harness/src/model.rs: plain BTreeSet/BTreeMap, naive loops) is correct",
    "verdicts cover only the executions produced by this run (counts above); nothing is claimed about other inputs",
    "rustc/std, the sanitizer runtimes and Miri behave as documented",
]


class Alloc:
    """Hands out consecutive, disjoint index ranges."""

    def __init__(self):
        self.next = 0

    def job(self, engine, n, shards=16, **kw):
        lo = self.next
        self.next += n
        j = dict(engine=engine, lo=lo, hi=lo + n, shard=max(1, -(-n // shards)))
        j.update(kw)
        return j


def scale(tier, quick, thorough):
    return quick if tier == "quick" else thorough


def plan(prop, tier):
    f = globals().get("plan_" + prop)
    if f is None:
        return None
    p = f(tier)
    p.setdefault("assumptions", [])
    p["assumptions"] = p["assumptions"] + COMMON_ASSUMPTIONS
    return p


def plan_C01(tier):
    a = Alloc()
    q = tier == "quick"
    jobs = [
        a.job("rel", 32000 if q else 640000),
        a.job("chk", 8000 if q else 160000),
        a.job("asan", 3000 if q else 40000, timeout=900),
    ]
    if not q:
        jobs.append(a.job("miri", 160, shards=16, params={"max_order": 9, "max_len": 12}, timeout=1800))
    return dict(
        jobs=jobs,
        rule="case = (type of 6, start digraph from one of 14 public constructor families, order 1-17/31-33/63-65, random history of 1-60 add/remove/re-add/toggle/rejected calls); "
        "full observation (order, vertices, arcs, arcs_weighted, size, has_arc/arc_weight on all pairs incl. outside ids, == fresh digraph) after every call (n<=16) or every 4th; "
        "distinct = hash of (type, start, call sequence); non-trivial = at least one successful add, one remove_arc -> true and one rejected call",
        what="history + executable model",
        min_distinct=100,
    )


def plan_C02(tier):
    a = Alloc()
    q = tier == "quick"
    jobs = [
        a.job("rel", 24000 if q else 480000),
        a.job("chk", 6000 if q else 120000),
        a.job("asan", 3000 if q else 40000, timeout=900),
    ]
    if not q:
        jobs.append(a.job("miri", 96, shards=16, params={"max_order": 7, "walks": 6}, timeout=1800))
    return dict(
        jobs=jobs,
        rule="case = (one of 7 type variants incl. non-contiguous AdjacencyMap and both weighted types, digraph of one of 18 families, order 1-130); every query of the property is compared with the model for every vertex, "
        "every pair of V plus outside ids, and ~50 walks; distinct = hash of (type, V, A, w); non-trivial = at least one arc and not complete",
        what="reference-model comparison of every query",
        min_distinct=100,
    )


def plan_C03(tier):
    a = Alloc()
    q = tier == "quick"
    jobs = [
        a.job("rel", 120000 if q else 2400000),
        a.job("chk", 30000 if q else 600000),
        a.job("asan", 10000 if q else 100000, timeout=900),
    ]
    if not q:
        jobs.append(a.job("miri", 160, shards=16, params={"max_order": 7}, timeout=1800))
    return dict(
        jobs=jobs,
        rule="case = (AdjacencyListWeighted<usize> digraph of 18 families or the targeted 'superseded entry ahead of a pending vertex' family, order 1-24, weight class unit/{0,1}/0-9/0-10^6, 0-n distinct sources); "
        "distances(), Dijkstra and DijkstraDist item sequences are compared with Bellman-Ford on the model; distinct = hash of (V, A, w, sources); "
        "non-trivial = at least 3 reachable vertices and the reference lazy-heap simulation pops a superseded entry while the heap is non-empty",
        what="reference-model comparison",
        min_distinct=100,
        min_feats={"superseded_pop_cases": 10},
    )


def plan_C04(tier):
    a = Alloc()
    q = tier == "quick"
    jobs = [
        a.job("rel", 160000 if q else 3200000),
        a.job("chk", 40000 if q else 800000),
        a.job("asan", 10000 if q else 100000, timeout=900),
    ]
    if not q:
        jobs.append(a.job("miri", 160, shards=16, params={"max_order": 7}, timeout=1800))
    return dict(
        jobs=jobs,
        rule="case = (abstract digraph of 18 families, order 1-20, instantiated in one or all of the five types, empty/single/multiple distinct sources); Bfs and BfsDist sequences and distances() compared with reference BFS levels "
        "(order inside a level is free); distinct = hash of (type choice, V, A, sources); non-trivial = at least 2 levels and (an unreachable vertex or at least 2 sources)",
        what="reference-model comparison",
        min_distinct=100,
    )


def plan_C05(tier):
    a = Alloc()
    q = tier == "quick"
    jobs = [
        a.job("rel", 80000 if q else 1600000),
        a.job("chk", 20000 if q else 400000),
        a.job("asan", 6000 if q else 60000, timeout=900),
    ]
    if not q:
        jobs.append(a.job("miri", 128, shards=16, params={"max_order": 6}, timeout=1800))
    return dict(
        jobs=jobs,
        rule="case = (BfsPred on one of five types, or DijkstraPred on AdjacencyListWeighted<usize>; digraph/sources as in C04/C03; 6-8 target predicates: none, all, single, random subset, only unreachable, containing a source, competing targets, farthest vertex); "
        "predecessor tree, item sequence, shortest_path and cycles() are judged against reference distances and the arc set; distinct = hash of (algorithm, type, V, A, w, sources); "
        "non-trivial = some predicate has targets at two different distances or a source among its targets, or (Dijkstra) a superseded heap entry is popped",
        what="reference-model comparison",
        min_distinct=100,
    )


def plan_C06(tier):
    a = Alloc()
    q = tier == "quick"
    jobs = [
        a.job("rel", 160000 if q else 3200000),
        a.job("chk", 40000 if q else 800000),
        a.job("asan", 10000 if q else 100000, timeout=900),
    ]
    if not q:
        jobs.append(a.job("miri", 160, shards=16, params={"max_order": 7}, timeout=1800))
    return dict(
        jobs=jobs,
        rule="case = (digraph of 18 families, order 1-20, one of five types, empty/single/multiple distinct sources); Dfs, DfsDist, DfsPred sequences and predecessors() are judged by an online validity checker of the depth-first preorder rule "
        "(any neighbour order accepted); distinct = hash of (type, V, A, sources); non-trivial = the intended stack algorithm pops an already-visited entry while unvisited entries remain (the situation of the known finding)",
        what="online trace checker (preorder validity) + reachability from the model",
        min_distinct=100,
        min_feats={"stale_pop_with_pending_entries": 10},
    )
