"""Per-property workloads: which engines, how many cases, which parameters.

A case is a pure function of (property, VERIF_SEED, index, params); engines get
disjoint index ranges so that every engine adds distinct cases.
"""

COMMON_ASSUMPTIONS = [
    "the reference model (harness/src/model.rs: plain BTreeSet/BTreeMap, naive loops) is correct",
    "verdicts cover only the executions produced by this run (counts above); nothing is claimed about other inputs",
    "rustc/std, the sanitizer runtimes and Miri behave as documented",
]


class Alloc:
    """Hands out consecutive, disjoint index ranges."""

    def __init__(self):
        self.next = 0

    def job(self, engine, n, shards=16, **kw):
        lo = self.next
        self.next += n
        j = dict(engine=engine, lo=lo, hi=lo + n, shard=max(1, -(-n // shards)))
        j.update(kw)
        return j


def scale(tier, quick, thorough):
    return quick if tier == "quick" else thorough


def plan(prop, tier):
    f = globals().get("plan_" + prop)
    if f is None:
        return None
    p = f(tier)
    _few_cpu_jobs(p, tier)
    p.setdefault("assumptions", [])
    p["assumptions"] = p["assumptions"] + COMMON_ASSUMPTIONS
    return p


def _few_cpu_jobs(p, tier):
    """Properties whose code has no threads today still get a slice of their workload under
    affinity masks of 1, 2 and 3 CPUs (available_parallelism() follows the mask): a change that
    parallelises a search or a check, and is wrong only for some worker counts, then meets several
    of them. Plans that already sweep CPU masks are left alone."""
    jobs = p["jobs"]
    if any("cpus" in j for j in jobs):
        return
    native = [j for j in jobs if j["engine"] in ("rel", "chk")]
    if not native:
        return
    base = max(native, key=lambda j: j["hi"] - j["lo"])
    n = max(300, min(6000, (base["hi"] - base["lo"]) // 40))
    if tier != "quick":
        n *= 4
    nxt = max(j["hi"] for j in jobs)
    for c in (1, 2, 3):
        j = dict(engine="chk", lo=nxt, hi=nxt + n, shard=-(-n // 2), cpus=c)
        if "params" in base:
            j["params"] = dict(base["params"])
        jobs.append(j)
        nxt += n


def plan_C01(tier):
    a = Alloc()
    q = tier == "quick"
    jobs = [
        a.job("rel", 64000 if q else 960000),
        a.job("chk", 16000 if q else 240000),
        a.job("asan", 4000 if q else 40000, timeout=900),
    ]
    if not q:
        jobs.append(a.job("miri", 160, shards=16, params={"max_order": 9, "max_len": 12}, timeout=1800))
    return dict(
        jobs=jobs,
        rule="case = (type of 6, start digraph from one of 14 public constructor families, order 1-17/31-33/63-65, random history of 1-60 add/remove/re-add/toggle/rejected calls); "
        "full observation (order, vertices, arcs, arcs_weighted, size, has_arc/arc_weight on all pairs incl. outside ids, == fresh digraph) after every call (n<=16) or every 4th; "
        "distinct = hash of (type, start, call sequence); non-trivial = at least one successful add, one remove_arc -> true and one rejected call",
        what="history + executable model",
        min_distinct=100,
    )


def plan_C02(tier):
    a = Alloc()
    q = tier == "quick"
    jobs = [
        a.job("rel", 96000 if q else 960000),
        a.job("chk", 24000 if q else 240000),
        a.job("asan", 6000 if q else 60000, timeout=900),
    ]
    if not q:
        jobs.append(a.job("miri", 96, shards=16, params={"max_order": 7, "walks": 6}, timeout=1800))
    return dict(
        jobs=jobs,
        rule="case = (one of 7 type variants incl. non-contiguous AdjacencyMap and both weighted types, digraph of one of 18 families, order 1-130); every query of the property is compared with the model for every vertex, "
        "every pair of V plus outside ids, and ~50 walks; distinct = hash of (type, V, A, w); non-trivial = at least one arc and not complete",
        what="reference-model comparison of every query",
        min_distinct=100,
    )


def plan_C03(tier):
    a = Alloc()
    q = tier == "quick"
    jobs = [
        a.job("rel", 480000 if q else 4800000),
        a.job("chk", 120000 if q else 1200000),
        a.job("asan", 30000 if q else 300000, timeout=900),
    ]
    if not q:
        jobs.append(a.job("miri", 160, shards=16, params={"max_order": 7}, timeout=1800))
    return dict(
        jobs=jobs,
        rule="case = (AdjacencyListWeighted<usize> digraph of 18 families or the targeted 'superseded entry ahead of a pending vertex' family, order 1-24, weight class unit/{0,1}/0-9/0-10^6, 0-n distinct sources); "
        "distances(), Dijkstra and DijkstraDist item sequences are compared with Bellman-Ford on the model; distinct = hash of (V, A, w, sources); "
        "non-trivial = at least 3 reachable vertices and the reference lazy-heap simulation pops a superseded entry while the heap is non-empty",
        what="reference-model comparison",
        min_distinct=100,
        min_feats={"superseded_pop_cases": 10},
    )


def plan_C04(tier):
    a = Alloc()
    q = tier == "quick"
    jobs = [
        a.job("rel", 480000 if q else 4800000),
        a.job("chk", 120000 if q else 1200000),
        a.job("asan", 30000 if q else 300000, timeout=900),
    ]
    if not q:
        jobs.append(a.job("miri", 160, shards=16, params={"max_order": 7, "huge_every": 0}, timeout=1800))
    return dict(
        jobs=jobs,
        rule="case = (abstract digraph of 18 families, order 1-20, instantiated in one or all of the five types, empty/single/multiple distinct sources); Bfs and BfsDist sequences and distances() compared with reference BFS levels "
        "(order inside a level is free); distinct = hash of (type choice, V, A, sources); non-trivial = at least 2 levels and (an unreachable vertex or at least 2 sources)",
        what="reference-model comparison",
        min_distinct=100,
    )


def plan_C05(tier):
    a = Alloc()
    q = tier == "quick"
    jobs = [
        a.job("rel", 320000 if q else 3200000),
        a.job("chk", 80000 if q else 800000),
        a.job("asan", 20000 if q else 200000, timeout=900),
    ]
    if not q:
        jobs.append(a.job("miri", 128, shards=16, params={"max_order": 6}, timeout=1800))
    return dict(
        jobs=jobs,
        rule="case = (BfsPred on one of five types, or DijkstraPred on AdjacencyListWeighted<usize>; digraph/sources as in C04/C03; 6-8 target predicates: none, all, single, random subset, only unreachable, containing a source, competing targets, farthest vertex); "
        "predecessor tree, item sequence, shortest_path and cycles() are judged against reference distances and the arc set; distinct = hash of (algorithm, type, V, A, w, sources); "
        "non-trivial = some predicate has targets at two different distances or a source among its targets, or (Dijkstra) a superseded heap entry is popped",
        what="reference-model comparison",
        min_distinct=100,
    )


def plan_C06(tier):
    a = Alloc()
    q = tier == "quick"
    jobs = [
        a.job("rel", 480000 if q else 4800000),
        a.job("chk", 120000 if q else 1200000),
        a.job("asan", 30000 if q else 300000, timeout=900),
    ]
    if not q:
        jobs.append(a.job("miri", 160, shards=16, params={"max_order": 7, "huge_every": 0}, timeout=1800))
    return dict(
        jobs=jobs,
        rule="case = (digraph of 18 families, order 1-20, one of five types, empty/single/multiple distinct sources); Dfs, DfsDist, DfsPred sequences and predecessors() are judged by an online validity checker of the depth-first preorder rule "
        "(any neighbour order accepted); distinct = hash of (type, V, A, sources); non-trivial = the intended stack algorithm pops an already-visited entry while unvisited entries remain (the situation of the known finding)",
        what="online trace checker (preorder validity) + reachability from the model",
        min_distinct=100,
        min_feats={"stale_pop_with_pending_entries": 10},
    )


def std_jobs(tier, rel, chk, asan, miri=0, miri_params=None, params=None, cpus_sweep=None):
    """rel/chk/asan(/miri) jobs with quick sizes; thorough = 20x (miri 10x)."""
    a = Alloc()
    q = tier == "quick"
    k = 1 if q else 10
    jobs = []
    base = dict(params or {})
    if cpus_sweep:
        masks = cpus_sweep if q else list(range(1, 17))
        for c in masks:
            pr = dict(base)
            pr["delay"] = 1 + c
            jobs.append(a.job("rel", max(1, rel * k // len(masks)), shards=2 if q else 4, cpus=c, params=pr))
        for c in (masks if not q else masks[::2]):
            pr = dict(base)
            pr["delay"] = 100 + c
            jobs.append(a.job("chk", max(1, chk * k // len(masks)), shards=2, cpus=c, params=pr))
    else:
        jobs.append(a.job("rel", rel * k, params=base))
        jobs.append(a.job("chk", chk * k, params=base))
    if asan:
        jobs.append(a.job("asan", asan * (1 if q else 10), timeout=1200, params=base))
    if miri and (not q or miri_params is not None):
        mp = dict(base)
        mp.update(miri_params or {})
        jobs.append(a.job("miri", miri * (1 if q else 8), shards=16, params=mp, timeout=2400, miri_cpus=3))
    return jobs, a


def plan_C07(tier):
    jobs, a = std_jobs(tier, 360000, 90000, 30000)
    if tier != "quick":
        jobs.append(a.job("miri", 200, shards=16, params={"max_order": 6}, timeout=1800))
    return dict(
        jobs=jobs,
        rule="case = (AdjacencyListWeighted<isize> digraph, order 1-14, weight family non-negative / potentials (negative arcs, no negative circuit) / negative DAG / planted negative circuit (reachable or cut off) / mixed negative / +-10^6 on acyclic; "
        "arc count forced through every residue mod 4; BellmanFordMoore from EVERY in-range source) judged against Bellman-Ford on the model; distinct = hash of (V, A, w); non-trivial = a negative arc is reachable from some source",
        what="reference-model comparison",
        min_distinct=100,
        min_feats={"arcs%4=0": 20, "arcs%4=1": 20, "arcs%4=2": 20, "arcs%4=3": 20, "cases_with_None_required": 20, "cases_with_Some_and_negative_arcs": 20},
    )


def plan_C08(tier):
    jobs, a = std_jobs(tier, 240000, 60000, 24000)
    if tier != "quick":
        jobs.append(a.job("miri", 200, shards=16, params={"max_order": 6}, timeout=1800))
    return dict(
        jobs=jobs,
        rule="case = (AdjacencyListWeighted<isize> digraph without negative circuit, order 1-12, weight families of C07 minus the circuit-producing ones); every entry of FloydWarshall::distances() compared with Bellman-Ford on the model from every vertex, "
        "and every row with BellmanFordMoore; distinct = hash of (V, A, w); non-trivial = asymmetric distance matrix with (an infinite and a negative entry) or at least 3 distinct finite values",
        what="reference-model comparison",
        min_distinct=100,
    )


def plan_C09(tier):
    jobs, a = std_jobs(tier, 100000, 25000, 8000)
    if tier != "quick":
        jobs.append(a.job("miri", 200, shards=16, params={"max_order": 7, "huge_per_100k": 0}, timeout=1800))
    return dict(
        jobs=jobs,
        rule="case = (digraph of 18 families (SCCs joined by a DAG with tree/back/cross arcs prominent), order 1-16, one of five types or a non-contiguous AdjacencyMap); Tarjan::components() must be a partition of V and equal the classes of mutual reachability on the model; "
        "distinct = hash of (type, V, A); non-trivial = at least 2 components, one of size >= 2",
        what="reference-model comparison",
        min_distinct=100,
    )


def plan_C10(tier):
    a = Alloc()
    q = tier == "quick"
    jobs = [
        a.job("rel", 80000 if q else 800000),
        a.job("chk", 20000 if q else 200000),
        a.job("asan", 8000 if q else 60000, timeout=1200),
    ]
    if not q:
        jobs.append(dict(engine="rel", lo=0, hi=1 << 20, shard=1 << 16, params={"mode": "ex5"}))
        jobs.append(a.job("miri", 160, shards=16, params={"max_order": 6, "huge_per_100k": 0}, timeout=1800))
    return dict(
        jobs=jobs,
        rule="case = AdjacencyMap with contiguous ids: ALL digraphs of order <= 4 (indices 0..4164, exhaustive for that sub-space in the rel engine), order 5 sampled (thorough: all 2^20), random orders 6-9 with density <= .5, a blocked/unblocked family, structured families; "
        "Johnson75::circuits() compared as a set and as a list (duplicates, canonical rotation) with a brute-force enumeration on the model; distinct = hash of (V, A); non-trivial = at least 2 circuits sharing a vertex",
        what="reference-model comparison (brute-force enumeration)",
        min_distinct=100,
        min_feats={"all_order_le_4": 4165},
        exhaustive=False,
    )


def plan_C11(tier):
    jobs, a = std_jobs(tier, 12000, 3000, 3000, miri=32, miri_params={"max_order": 5}, cpus_sweep=[1, 2, 3, 5, 8, 16])
    if tier != "quick":
        jobs.append(a.job("tsan", 1500, shards=8, params={"max_order": 24, "delay": 7}, timeout=1800))
    return dict(
        jobs=jobs,
        rule="case = (type kind: AdjacencyList / AdjacencyMap / non-contiguous AdjacencyMap / AdjacencyMatrix / EdgeList / weighted converse; operands A, B, C of 18 families, orders 1-40, equal / +1 / unrelated orders, overlapping sparse key sets); complement, converse, union, filter_vertices results fully observed against set algebra on the model, "
        "plus involution / commutativity / idempotence / associativity and operand-unchanged; threaded operations run under CPU masks (cpus in engines[].configs) with seeded delays and the tiling monitor on the hook log; "
        "distinct = hash of (kind, A, B, C); non-trivial = more rows than available threads, operands of different order, or a non-contiguous operand",
        what="reference-model comparison + tiling monitor over hook event log",
        min_distinct=100,
    )


def plan_C12(tier):
    jobs, a = std_jobs(tier, 24000, 6000, 4000, miri=48, miri_params={"max_order": 6}, cpus_sweep=[1, 2, 3, 5, 8, 16])
    if tier != "quick":
        jobs.append(a.job("tsan", 1500, shards=8, params={"max_order": 24, "delay": 7, "kind": 0}, timeout=1800))
    return dict(
        jobs=jobs,
        rule="case = (one of 7 type variants incl. non-contiguous AdjacencyMap; digraph D from boundary families: tournament/semicomplete/complete moved by one pair (also with the arc count kept), circulant and symmetric +-1 arc, plus the 18 general families, orders 1-40; H derived from D by deleting arcs / a vertex, adding an arc or a vertex); "
        "all 8 unary predicates on D and H and all pair predicates in both directions compared with the definitions on the model; AdjacencyList::is_semicomplete additionally under CPU masks with the tiling monitor; "
        "distinct = hash of (type, D, H); non-trivial = D passes the implementation's size shortcut (so the pair scan decides) or |V(D)| != |V(H)|",
        what="reference-model comparison + tiling monitor",
        min_distinct=100,
        min_feats={"true:is_tournament": 20, "true:is_semicomplete": 20, "true:is_complete": 20, "true:is_regular": 20, "true:H_spanning_subdigraph_of_D": 20},
    )


def plan_C13(tier):
    a = Alloc()
    q = tier == "quick"
    jobs = [
        a.job("asan", 6000 if q else 60000, params={"part": "probe", "noalloc": 1}, timeout=1200),
        a.job("asan", 3000 if q else 30000, shards=8, cpus=2, params={"part": "probe", "noalloc": 1}, timeout=1200),
        a.job("asan", 3000 if q else 40000, params={"part": "prog", "noalloc": 1}, timeout=1200),
        a.job("asan", 1500 if q else 20000, shards=8, cpus=2, params={"part": "prog", "noalloc": 1}, timeout=1200),
        a.job("asan", 120 if q else 1200, shards=8, params={"part": "leak"}, timeout=1200),
        a.job("asan", 120 if q else 1200, shards=8, cpus=1, params={"part": "leak"}, timeout=1200),
        a.job("chk", 9000 if q else 90000, params={"part": "probe"}),
        a.job("chk", 4000 if q else 60000, params={"part": "prog"}),
        a.job("rel", 9000 if q else 90000, params={"part": "probe"}),
        a.job("rel", 4000 if q else 60000, params={"part": "prog"}),
        a.job("rel", 400 if q else 4000, params={"part": "leak"}),
        a.job("rel", 200 if q else 2000, shards=4, cpus=1, params={"part": "leak"}),
        a.job("rel", 200 if q else 2000, shards=4, cpus=3, params={"part": "leak"}),
        a.job("miri", 384 if q else 3840, shards=16 if q else 64, params={"part": "probe", "max_order": 5, "noalloc": 1}, timeout=2400, miri_cpus=3),
    ]
    if not q:
        jobs.append(a.job("miri", 640, shards=32, params={"part": "prog", "max_order": 5, "noalloc": 1}, timeout=2400, miri_cpus=2))
        jobs.append(a.job("miri", 80, shards=16, params={"part": "leak"}, timeout=2400, miri_cpus=3))
        jobs.append(a.job("tsan", 3000, shards=8, params={"part": "prog"}, timeout=1800))
    return dict(
        jobs=jobs,
        rule="three workloads, each case in a sharded child process whose outcome (return / Rust panic vs sanitizer report, UB-precondition abort, signal) is the oracle: (1) probe catalogue, index mod N selects the entry point "
        "(12 traversal/Tarjan entry points x 6 digraph variants, 10 query groups x 6, mutation x 6, complement/converse/union x 5, 26 special probes: Dijkstra*, BFM, FW, user-built PredecessorTree, DistanceMatrix incl. huge orders, AdjacencyMatrix::empty(2^32), "
        "order-0 maps, Johnson75 on non-contiguous maps, generators with boundary parameters, conversions, invalid iterators), arguments from {0, last, order, order+1, gap ids, 1000, 2^20}; (2) random programs of 2-6 calls over a value pool with results fed back as operands; "
        "(3) heap growth: live bytes of a counting allocator after 8 and after 32 further repetitions of each of 40 operations must not grow proportionally; distinct = hash of the written-out probe/program; non-trivial = uses an out-of-range / far / gap id, a non-contiguous map, an order-0 map or a wrap-around order",
        what="process-outcome oracle under ASan+LSan, Miri, debug UB-precondition checks; counting-allocator monitor",
        min_distinct=100,
        min_feats={"part=probe": 1000, "part=prog": 1000, "part=leak": 40},
    )


C14_CASES = 7 * 136 + 159 + 3 + 13 + 56 + 6 + 4


def plan_C14(tier):
    q = tier == "quick"
    jobs = []
    masks = [1, 2, 3, 5, 8, 16] if q else list(range(1, 17))
    for c in masks:
        jobs.append(dict(engine="rel", lo=0, hi=C14_CASES, shard=(C14_CASES + 3) // 4, cpus=c, params={"delay": 10 + c}))
    for c in ([2, 16] if q else [1, 2, 3, 7, 16]):
        jobs.append(dict(engine="chk", lo=0, hi=C14_CASES, shard=(C14_CASES + 7) // 8, cpus=c, params={"delay": 50 + c}))
    jobs.append(dict(engine="asan", lo=0, hi=C14_CASES, shard=(C14_CASES + 15) // 16, params={"delay": 3}, timeout=1200))
    if not q:
        jobs.append(dict(engine="miri", lo=0, hi=C14_CASES, shard=(C14_CASES + 63) // 64, params={"max_order": 12}, timeout=2400, miri_cpus=3))
        jobs.append(dict(engine="tsan", lo=132, hi=264, shard=17, params={"delay": 5}, timeout=1800))
    return dict(
        jobs=jobs,
        rule="deterministic enumeration, index -> (generator, parameters): empty/complete/circuit/cycle/path/star/wheel at every order 1..130, 192, 257 (wheel from 4); biclique(m, n) for (m, n) in [1,12]^2 plus (1,64), (64,1), (33,31); trivial, claw, utility; "
        "inadmissible parameters (order 0 for the seven generators, wheel 1-3, biclique with a zero side) must panic; every case builds the digraph in all four unweighted types, observes each against the closed form written from the statement and compares the types with each other; "
        "AdjacencyList::complete runs under every listed CPU mask with seeded delays and the tiling monitor; distinct = (generator, parameters); non-trivial = order above the thread count, order^2 not a multiple of 64, unequal biclique sides, or an inadmissible parameter",
        what="closed-form comparison, exhaustive for the stated parameter ranges; tiling monitor",
        min_distinct=900,
        exhaustive=True,
        min_feats={"inadmissible": 13, "complete": 136, "wheel": 136, "biclique": 159, "second_call_after_a_different_order": 56, "extreme_order": 6, "concurrent_callers": 4},
    )


def sweep_shared(tier, n_quick, n_thorough, reps_quick, reps_thorough, extra_params=None):
    """every CPU mask x several repetitions over the SAME index range, so that the driver can
    compare the result digests of one case across configurations and repetitions"""
    q = tier == "quick"
    n = n_quick if q else n_thorough
    masks = [1, 2, 3, 5, 8, 16] if q else list(range(1, 17))
    reps = reps_quick if q else reps_thorough
    jobs = []
    for c in masks:
        for rep in range(reps):
            pr = dict(extra_params or {})
            pr["delay"] = 1000 * (rep + 1) + c if rep else 0
            # a different shard split per repetition: the same case then follows a different history
            # inside its process (first-call caches, thread-local buffers)
            parts = 2 + rep
            jobs.append(dict(engine="rel" if rep % 2 == 0 else "chk", lo=0, hi=n, shard=-(-n // parts), cpus=c, params=pr))
    return jobs, n


def plan_C15(tier):
    q = tier == "quick"
    jobs, n = sweep_shared(tier, 3000, 20000, 2, 4)
    a = Alloc()
    a.next = n
    jobs.append(a.job("rel", 40000 if q else 800000, params={"draws": 20000 if q else 100000}))
    jobs.append(a.job("asan", 3000 if q else 30000, timeout=1200, params={"draws": 2000}))
    jobs.append(a.job("miri", 64 if q else 512, shards=16 if q else 32, params={"max_order": 6, "draws": 50}, timeout=2400, miri_cpus=3))
    if not q:
        for mc in (1, 2, 4):
            jobs.append(dict(engine="miri", lo=0, hi=128, shard=8, params={"max_order": 6, "draws": 50}, timeout=2400, miri_cpus=mc, miri_seed=mc))
        jobs.append(a.job("tsan", 3000, shards=8, params={"max_order": 40, "delay": 9, "draws": 1000}, timeout=1800))
    return dict(
        jobs=jobs,
        rule="case = (generator random_tournament / random_recursive_tree / erdos_renyi, one of four types (AdjacencyMap twice as often, with hooks, delays and tiling monitor), order 1-64/100/129, seed from {0, 1, 2^63, u64::MAX, random}, p from {0, eps, .25, .5, .5+eps, .75, 1-eps, 1}; p outside [0,1] incl. NaN/inf must panic) or 20k-100k next_f64 draws; "
        "every result is checked structurally and against a second call; the first index range is run under every CPU mask several times with different delay seeds and the driver compares result digests (thread-count dependent AdjacencyMap generators only inside one mask); "
        "distinct = (type, generator, order, seed, p); non-trivial = order above the thread count",
        what="structural oracle + repeat-equality + cross-process digest comparison + tiling monitor",
        min_distinct=100,
        min_feats={"next_f64": 20, "inadmissible_p": 20, "result_digest_groups_observed_2+_times": 100},
    )


def plan_C16(tier):
    jobs, a = std_jobs(tier, 120000, 30000, 10000)
    if tier != "quick":
        jobs.append(a.job("miri", 96, shards=16, params={"max_order": 6}, timeout=1800))
    return dict(
        jobs=jobs,
        rule="case = (digraph of 18 families, order 1-40 (rarely up to 130), often with an isolated top vertex; source type of 4): all 4 targets from that source observed against the model, compared with direct construction and converted back (round trip), a chain of 2-4 conversions, both weighted targets (all weights 1), "
        "and for half of the cases the iterator builders with valid rows/arcs (duplicates, shuffled) and invalid ones (self-loop, outside head, empty where documented) that must panic; distinct = hash of (source type, V, A); non-trivial = at least 2 arcs and an isolated top vertex",
        what="reference-model comparison",
        min_distinct=100,
        min_feats={"iter_builders": 100},
    )


def plan_C17(tier):
    q = tier == "quick"
    jobs, n = sweep_shared(tier, 2400, 8000, 3, 6)
    jobs.append(dict(engine="asan", lo=0, hi=1600 if q else 8000, shard=100 if q else 500, params={"delay": 77}, timeout=1200))
    jobs.append(dict(engine="miri", lo=0, hi=64 if q else 256, shard=4 if q else 8, params={"max_order": 5}, timeout=2400, miri_cpus=3, miri_seed=1))
    if not q:
        for mc in (1, 2, 4):
            for ms in range(4):
                jobs.append(dict(engine="miri", lo=0, hi=64, shard=8, params={"max_order": 5}, timeout=2400, miri_cpus=mc, miri_seed=10 * mc + ms))
        for c in (2, 5, 16):
            jobs.append(dict(engine="tsan", lo=0, hi=1600, shard=200, cpus=c, params={"delay": 31 + c, "max_order": 65}, timeout=1800))
    return dict(
        jobs=jobs,
        rule="case = index mod 8 selects AdjacencyList::{complement, complete, degree_sequence, is_semicomplete, union}, AdjacencyMap::{union, random_tournament, erdos_renyi}; order from {1-5,7,8,9,15,16,17,31,33,47,64,65,100}; densities 0/.1/.5/.9/1; unions of equal, +1, halved and unrelated orders, map unions with shifted / sparse keys; "
        "semicomplete digraphs whose only missing pair sits in the first / last / a random chunk; the SAME index range runs under every CPU mask (taskset) several times with different delay seeds: each run compares with the single-threaded model and checks the tiling of the logged row ranges, "
        "the driver compares result digests across all masks and repetitions (seeded map generators only inside one mask); distinct = hash of (operation, inputs); non-trivial = more rows than available threads (counted per mask)",
        what="reference-model comparison in every configuration + cross-configuration digest comparison + tiling monitor over the hook log (+ TSan / Miri schedules in thorough)",
        min_distinct=100,
        min_feats={"result_digest_groups_observed_2+_times": 500},
    )


def plan_C18(tier):
    jobs, a = std_jobs(tier, 600000, 150000, 30000)
    if tier != "quick":
        jobs.append(a.job("miri", 160, shards=16, params={"max_order": 5}, timeout=1800))
    return dict(
        jobs=jobs,
        rule="case = (usize matrix written through IndexMut by (u,v) or flat index with entries from tiny value sets <= infinity (many ties, all-infinite rows/matrices), isize matrix with negative entries, or a matrix produced by FloydWarshall; order 1-12); "
        "new/indexing/eccentricities/diameter/center/periphery/is_connected compared with their definitions; distinct = hash of (kind, entries); non-trivial = a tie among minimal or maximal eccentricities",
        what="reference-definition comparison",
        min_distinct=100,
    )


def plan_C19(tier):
    q = tier == "quick"
    ex5 = 2 + 9 + 64 + 625 + 7776
    ex6 = ex5 + 117649
    n_ex = ex5 if q else ex6
    par = {"exhaustive_len": 5 if q else 6}
    jobs = [
        dict(engine="rel", lo=0, hi=n_ex, shard=-(-n_ex // 16), params=par),
        dict(engine="chk", lo=0, hi=ex5, shard=-(-ex5 // 16), params=par),
        dict(engine="asan", lo=0, hi=ex5, shard=-(-ex5 // 16), params=par, timeout=1200),
        dict(engine="rel", lo=n_ex, hi=n_ex + (100000 if q else 400000), shard=(100000 if q else 400000) // 16, params=par),
        dict(engine="asan", lo=n_ex + 400000, hi=n_ex + 400000 + (2000 if q else 20000), shard=(2000 if q else 20000) // 16, params=par, timeout=1200),
    ]
    if not q:
        jobs.append(dict(engine="miri", lo=0, hi=2 + 9 + 64 + 625, shard=44, params=par, timeout=2400))
    return dict(
        jobs=jobs,
        rule="ALL predecessor vectors of length <= %d (each entry None or any in-range vertex; %d vectors, exhaustive for that sub-space) x all starts x all targets (search and search_by) and predicates {pred.is_none(), v > k, never, always, self-reference}, "
        "then random vectors of length 7-300 (random, one long chain, rho, forest, star into a self-referential vertex); result compared with the functional-graph walk; termination restated as at most 2n+4 predicate evaluations (a counting predicate unwinds beyond that); "
        "distinct = the vector; non-trivial = the chain from some start revisits a vertex" % (5 if q else 6, n_ex),
        what="reference-model comparison, exhaustive for short vectors; bounded-step termination monitor",
        min_distinct=1000,
        exhaustive=True,
        min_feats={"exhaustive_len=5": 7776},
    )


def plan_C20(tier):
    jobs, a = std_jobs(tier, 120000, 30000, 8000)
    if tier != "quick":
        jobs.append(a.job("miri", 96, shards=16, params={"max_order": 6}, timeout=1800))
    return dict(
        jobs=jobs,
        rule="case = (type of 6 or the is_complete-via-equality check; digraph of 18 families, order 1-40): pairs of histories built to coincide (shuffled adds with add+remove detours and re-adds, From<iter>, conversion round trip, generator vs add_arc, toggle history, overwritten weights, two sparse-id map histories) must be ==, cmp Equal and hash-equal (DefaultHasher); "
        "pairs built to differ minimally (one arc flipped, one weight, order+1 with the same arcs, an extra isolated map vertex) must be != with a consistent cmp; a clone is equal, and after mutating either side both are fully observed against their models; "
        "distinct = hash of (type, V, A, w); non-trivial = the detour history has a different length from the direct one",
        what="reference-model comparison of ==, cmp, Hash, Clone",
        min_distinct=100,
    )
