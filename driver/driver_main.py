"""check driver: plans -> shards -> engines -> verdict + evidence."""
import sys, os, json, time, subprocess, struct, shutil, hashlib, re
from concurrent.futures import ThreadPoolExecutor

import engines
from engines import VERIF, TARGET
import plans

EVID = os.path.join(VERIF, "evidence")
REPLAYS = os.path.join(VERIF, "replays")
KNOWN_FILE = os.path.join(VERIF, "KNOWN_FINDINGS.txt")
MAX_RESTARTS = 20


def log(msg):
    print(f"[check] {msg}", file=sys.stderr, flush=True)


def load_known():
    """known: lines -> list of dict(property, sig, text)."""
    out = []
    if not os.path.exists(KNOWN_FILE):
        return out
    for line in open(KNOWN_FILE):
        line = line.strip()
        if not line.startswith("known:"):
            continue
        rest = line[len("known:"):].strip()
        prop = re.search(r"property=(\S+)", rest)
        sig = re.search(r"sig=(\S+)", rest)
        wit = re.search(r'witness="([^"]*)"', rest)
        what = rest.split("what=", 1)[1].strip() if "what=" in rest else rest
        if prop and sig:
            out.append(dict(property=prop.group(1), sig=sig.group(1), witness=wit.group(1) if wit else None, what=what, line=line))
    return out


class Shard:
    def __init__(self, job, lo, hi, jid):
        self.job, self.lo, self.hi, self.jid = job, lo, hi, jid
        self.records = []      # viol / known / harness_error dicts
        self.summaries = []
        self.crashes = []      # dict(kind, site, idx, excerpt)
        self.inconclusive = [] # reasons
        self.fp_files = []
        self.digests = []      # (key, value, per_config, config, index)
        self.wall = 0.0
        self.procs = 0


def run_shard(prop, seed, sh, tmpdir):
    job = sh.job
    eng = job["engine"]
    lo = sh.lo
    restarts = 0
    t0 = time.time()
    while lo < sh.hi:
        fpf = os.path.join(tmpdir, f"fp-{sh.jid}-{lo}.bin")
        args = [prop, "--seed", str(seed), "--lo", str(lo), "--hi", str(sh.hi), "--markers", "--fp-file", fpf]
        params = dict(job.get("params", {}))
        if eng == "miri" and "big_cap" not in params:
            # the interpreter is ~10^4 times slower: no large-order strata
            params["big_cap"] = params.get("max_order", 8)
            params.setdefault("huge_every", 0)
            params.setdefault("huge_per_100k", 0)
            params.setdefault("pollute_every", 0)
        for k, v in sorted(params.items()):
            args += ["-p", f"{k}={v}"]
        argv, env = engines.command(eng, args, cpus=job.get("cpus"), miri_seed=job.get("miri_seed"), miri_cpus=job.get("miri_cpus"))
        outp = os.path.join(tmpdir, f"out-{sh.jid}-{lo}.txt")
        errp = os.path.join(tmpdir, f"err-{sh.jid}-{lo}.txt")
        timed_out = False
        with open(outp, "w") as fo, open(errp, "w") as fe:
            try:
                p = subprocess.run(argv, cwd=engines.HARNESS, env=env, stdout=fo, stderr=fe, timeout=job.get("timeout", 600))
                rc = p.returncode
            except subprocess.TimeoutExpired:
                timed_out = True
                rc = None
        sh.procs += 1
        last_begin = None
        got_summary = False
        with open(outp, errors="replace") as f:
            for line in f:
                line = line.strip()
                if not line.startswith("{"):
                    continue
                try:
                    d = json.loads(line)
                except Exception:
                    continue
                t = d.get("t")
                if t == "begin":
                    last_begin = d["i"]
                elif t == "summary":
                    got_summary = True
                    sh.summaries.append(d)
                elif t == "digest":
                    cfg = f"cpus={job.get('cpus')}" if eng != "miri" else f"miri_cpus={job.get('miri_cpus')}"
                    sh.digests.append((d["k"], d["v"], d["per_config"], cfg, d["i"], eng, job))
                elif t in ("viol", "known", "harness_error"):
                    d["engine"] = eng
                    d["job"] = job
                    sh.records.append(d)
        stderr = open(errp, errors="replace").read()
        if os.path.exists(fpf):
            sh.fp_files.append(fpf)
        if timed_out:
            sh.inconclusive.append(f"{eng}: watchdog fired in cases {lo}..{sh.hi} (last begun: {last_begin})")
            break
        dl = re.search(r"CASE-DEADLINE-EXCEEDED idx=(\d+) seconds=(\d+)", stderr)
        if dl:
            # one case did not come back: no verdict for it (a wall-clock bound is never a violation), the rest of the shard is still explored
            sh.inconclusive.append(f"{eng}: case {dl.group(1)} did not finish within {dl.group(2)} s (replay: --case {dl.group(1)})")
            restarts += 1
            if restarts > 1:
                sh.inconclusive.append(f"{eng}: two cases without an end in one shard; cases {int(dl.group(1)) + 1}..{sh.hi} not explored")
                break
            lo = int(dl.group(1)) + 1
            continue
        if rc == 0 and got_summary:
            break
        # abnormal end
        cls = engines.classify_failure(eng, rc, stderr)
        if rc in (98,) and got_summary and cls and cls[0] == "lsan:leak":
            # leak report at exit: attributable to the shard, not to a case
            sh.crashes.append(dict(kind=cls[0], site=cls[1], idx=None, lo=lo, hi=sh.hi, excerpt=cls[2], engine=eng, job=job))
            break
        if cls is None or last_begin is None:
            sh.inconclusive.append(f"{eng}: process ended rc={rc} without an attributable report (cases {lo}..{sh.hi}, last begun {last_begin}): {stderr[-400:]!r}")
            break
        sh.crashes.append(dict(kind=cls[0], site=cls[1], idx=last_begin, excerpt=cls[2], engine=eng, job=job))
        restarts += 1
        if restarts > MAX_RESTARTS:
            sh.inconclusive.append(f"{eng}: more than {MAX_RESTARTS} crashes in one shard; cases {last_begin + 1}..{sh.hi} not explored")
            break
        lo = last_begin + 1
    sh.wall = time.time() - t0
    return sh


def read_fps(files):
    s = set()
    for f in files:
        try:
            b = open(f, "rb").read()
        except OSError:
            continue
        s.update(struct.unpack(f"<{len(b) // 8}Q", b[: len(b) // 8 * 8]))
    return s


def write_replay(prop, seed, rec):
    os.makedirs(REPLAYS, exist_ok=True)
    job = rec.get("job", {})
    body = dict(
        property=prop,
        engine=rec.get("engine"),
        seed=seed,
        index=rec.get("i", rec.get("idx")),
        range=[rec.get("lo"), rec.get("hi")] if rec.get("idx", 0) is None else None,
        params=job.get("params", {}),
        cpus=job.get("cpus"),
        miri_seed=job.get("miri_seed"),
        miri_cpus=job.get("miri_cpus"),
        kind=rec.get("kind"),
        detail=rec.get("detail", rec.get("excerpt", ""))[:5000],
        case=rec.get("desc", ""),
        site=rec.get("site", ""),
    )
    h = hashlib.sha1(json.dumps(body, sort_keys=True).encode()).hexdigest()[:10]
    path = os.path.join(REPLAYS, f"{prop}-{body['engine']}-s{seed}-i{body['index']}-{h}.json")
    with open(path, "w") as f:
        json.dump(body, f, indent=1)
    return os.path.relpath(path, VERIF)


def anchor_coverage(prop, plan, seed, tmpdir):
    """Evidence of reach (not a verdict): line/function coverage of the property's anchored files under
    a slice of its own workload, from an -Cinstrument-coverage build of the harness."""
    try:
        anchors = []
        for line in open(os.path.join(VERIF, "properties.jsonl")):
            d = json.loads(line)
            if d["id"] == prop:
                anchors = d["anchors"]["files"]
        prof, cov = engines.llvm_tool("llvm-profdata"), engines.llvm_tool("llvm-cov")
        if not anchors or not prof or not cov:
            return dict(note="coverage tools or anchors not available")
        ok, dt, msg = engines.build("cov", log)
        if not ok:
            return dict(note="coverage build failed: " + msg[-300:])
        cdir = os.path.join(tmpdir, "cov")
        os.makedirs(cdir, exist_ok=True)
        # one slice per distinct parameter set of the native jobs
        seen, procs, ran = set(), [], 0
        for j in plan["jobs"]:
            if j["engine"] not in ("rel", "chk"):
                continue
            key = json.dumps({k: v for k, v in j.get("params", {}).items() if k != "delay"}, sort_keys=True)
            if key in seen:
                continue
            seen.add(key)
            lo = j.get("lo", 0)
            hi = min(j["hi"], lo + 6000)
            args = [prop, "--seed", str(seed), "--lo", str(lo), "--hi", str(hi)]
            for k, v in sorted(j.get("params", {}).items()):
                args += ["-p", f"{k}={v}"]
            argv, env = engines.command("cov", args)
            env["LLVM_PROFILE_FILE"] = os.path.join(cdir, "c-%p.profraw")
            procs.append(subprocess.Popen(argv, cwd=engines.HARNESS, env=env, stdout=subprocess.DEVNULL, stderr=subprocess.DEVNULL))
            ran += hi - lo
        for p in procs:
            try:
                p.wait(timeout=900)
            except subprocess.TimeoutExpired:
                p.kill()
        raws = [os.path.join(cdir, f) for f in os.listdir(cdir) if f.endswith(".profraw")]
        if not raws:
            return dict(note="no coverage profile was written")
        merged = os.path.join(cdir, "m.profdata")
        subprocess.run([prof, "merge", "-sparse"] + raws + ["-o", merged], check=True, stdout=subprocess.DEVNULL, stderr=subprocess.DEVNULL)
        out = subprocess.run([cov, "export", "-summary-only", f"-instr-profile={merged}", engines.ENGINES["cov"]["bin"]], stdout=subprocess.PIPE, stderr=subprocess.DEVNULL, text=True)
        data = json.loads(out.stdout)
        files = {}
        for f in data["data"][0]["files"]:
            for a in anchors:
                if f["filename"].endswith("/" + a):
                    s = f["summary"]
                    files[a] = dict(lines=s["lines"]["count"], lines_covered=s["lines"]["covered"], lines_percent=round(s["lines"]["percent"], 1),
                                    functions=s["functions"]["count"], functions_covered=s["functions"]["covered"])
        return dict(cases_run_for_coverage=ran, files=files,
                    note="whole-file figures: an anchored file also contains code that belongs to other properties")
    except Exception as e:  # never affects the verdict
        return dict(note=f"coverage step failed: {type(e).__name__}: {e}")


def run_check(prop, tier, seed):
    t0 = time.time()
    plan = plans.plan(prop, tier)
    if plan is None:
        print(f"INCONCLUSIVE property={prop} reason=no plan for this property")
        return 2
    tmpdir = os.path.join(TARGET, "tmp", f"{prop}-{os.getpid()}")
    shutil.rmtree(tmpdir, ignore_errors=True)
    os.makedirs(tmpdir, exist_ok=True)
    os.makedirs(EVID, exist_ok=True)
    inconclusive = []
    # builds
    engs = []
    for j in plan["jobs"]:
        if j["engine"] not in engs:
            engs.append(j["engine"])
    for e in engs:
        ok, dt, msg = engines.build(e, log)
        if not ok:
            inconclusive.append(f"build of engine {e} failed: {msg[-1500:]}")
    if inconclusive:
        return finish(prop, tier, seed, plan, [], inconclusive, t0, tmpdir)
    # shards
    shards = []
    jid = 0
    for j in plan["jobs"]:
        lo, hi = j.get("lo", 0), j["hi"]
        size = max(1, j.get("shard", hi - lo))
        a = lo
        while a < hi:
            b = min(hi, a + size)
            shards.append(Shard(j, a, b, jid))
            jid += 1
            a = b
    # the small slices pinned to 1-3 CPUs go first: they are cheap, and on a loaded machine
    # they must not be the ones that are never started when a slow engine eats the watchdog
    shards.sort(key=lambda sh: 0 if (sh.job.get("cpus") or 99) <= 3 else 1)
    workers = int(os.environ.get("VERIF_JOBS", "16"))
    deadline = plan.get("watchdog_s", 900 if tier == "quick" else 5400)
    done = []
    with ThreadPoolExecutor(max_workers=workers) as ex:
        futs = [ex.submit(run_shard, prop, seed, sh, tmpdir) for sh in shards]
        for f in futs:
            remaining = deadline - (time.time() - t0)
            try:
                f.result(timeout=max(1, remaining))
            except Exception as e:  # includes TimeoutError
                inconclusive.append(f"driver watchdog or error: {type(e).__name__} {e}")
                for g in futs:
                    g.cancel()
                break
    # Leaving the block has waited for every shard that was already running (each is
    # bounded by its own timeouts). Whatever a finished shard observed counts: a
    # violation seen by one engine must not be lost because another engine's shard
    # ran into the watchdog first.
    for g in futs:
        if g.done() and not g.cancelled() and g.exception() is None:
            done.append(g.result())
        elif g.done() and not g.cancelled():
            inconclusive.append(f"shard ended with a driver error: {type(g.exception()).__name__} {g.exception()}")
    cancelled = sum(1 for g in futs if g.cancelled())
    if cancelled:
        inconclusive.append(f"{cancelled} of {len(futs)} shards were not started after the watchdog fired")
    cov = None
    if tier == "thorough" or os.environ.get("VERIF_COV") == "1":
        cov = anchor_coverage(prop, plan, seed, tmpdir)
    return finish(prop, tier, seed, plan, done, inconclusive, t0, tmpdir, cov)


def finish(prop, tier, seed, plan, shards, inconclusive, t0, tmpdir, cov=None):
    known = [k for k in load_known() if k["property"] == prop]
    viols, known_seen, harness_errors = [], {}, []
    per_engine = {}
    feats = {}
    samples = []
    evaluations = comparisons = 0
    fp_files = []
    sigs = {}
    for sh in shards:
        e = sh.job["engine"]
        pe = per_engine.setdefault(e, dict(cases=0, comparisons=0, processes=0, reports=0, nontrivial=0, wall_s=0.0, configs=set()))
        pe["processes"] += sh.procs
        pe["wall_s"] = round(pe["wall_s"] + sh.wall, 2)
        cfg = {k: sh.job[k] for k in ("cpus", "miri_seed", "miri_cpus") if sh.job.get(k) is not None}
        cfg.update(sh.job.get("params", {}))
        pe["configs"].add(json.dumps(cfg, sort_keys=True))
        for s in sh.summaries:
            pe["cases"] += s["cases"] - s["skipped"]
            pe["comparisons"] += s["comparisons"]
            pe["nontrivial"] += s["nontrivial"]
            evaluations += s["cases"] - s["skipped"]
            comparisons += s["comparisons"]
            for k, v in s["feats"].items():
                feats[k] = feats.get(k, 0) + v
            for x in s["samples"]:
                if len(samples) < 5:
                    samples.append(x[:700])
            for site, lst in s.get("sigs", {}).items():
                sigs.setdefault(site, set()).update(lst)
        fp_files += sh.fp_files
        inconclusive += sh.inconclusive
        for r in sh.records:
            if r["t"] == "viol":
                viols.append(r)
                pe["reports"] += 1
            elif r["t"] == "known":
                base = r["sig"].split()[0]
                match = [k for k in known if k["sig"] == base]
                if match:
                    known_seen.setdefault(r["sig"], []).append(r)
                else:
                    r["kind"] = "unlisted-finding:" + r["sig"]
                    viols.append(r)
                    pe["reports"] += 1
            else:
                harness_errors.append(r)
        for c in sh.crashes:
            pe["reports"] += 1
            viols.append(dict(t="viol", i=c.get("idx"), idx=c.get("idx"), lo=c.get("lo"), hi=c.get("hi"), kind=c["kind"] + (" at " + c["site"] if c["site"] else ""),
                              detail=c["excerpt"], desc="", engine=c["engine"], job=c["job"], site=c["site"]))
    # results of the same case under different configurations / repetitions
    groups = {}
    n_dig = 0
    for sh in shards:
        for (k, v, pc, cfg, i, eng, job) in sh.digests:
            n_dig += 1
            g = groups.setdefault((k, cfg if pc else None), {})
            e = g.setdefault(v, [(i, eng, job, cfg), 0])
            e[1] += 1
    for (key, g) in [(key, g) for key, g in groups.items() if len(g) > 1][:20]:
        (k, cfg) = key
        reps = [e[0] for e in g.values()]
        i, eng, job, c0 = reps[0]
        others = ", ".join(f"case {x[0]} under {x[3]} ({x[1]})" for x in reps[1:4])
        viols.append(dict(t="viol", i=i, kind="result-differs-between-" + ("repetitions-in-one-configuration" if cfg else "configurations"),
                          detail=f"the same inputs (digest key {k}) gave {len(g)} different results: case {i} under {c0} ({eng}) vs {others}", desc="", engine=eng, job=job))
    if n_dig:
        feats["result_digests_recorded"] = n_dig
        feats["result_digest_groups"] = len(groups)
        feats["result_digest_groups_observed_2+_times"] = sum(1 for g in groups.values() if sum(e[1] for e in g.values()) >= 2)
    for h in harness_errors[:3]:
        inconclusive.append(f"harness error in case {h.get('i')}: {h.get('msg')}")
    distinct = len(read_fps(fp_files))
    for e in per_engine.values():
        e["configs"] = sorted(e["configs"])[:40]
    for site in sigs:
        feats[f"distinct_interleaving_signatures:{site}"] = len(sigs[site])
    # floors
    floor = plan.get("min_distinct", 2)
    if not inconclusive and not viols and distinct < floor:
        inconclusive.append(f"only {distinct} distinct non-trivial cases (floor {floor})")
    if not inconclusive and not viols and comparisons == 0:
        inconclusive.append("no comparison was made")
    for key, minimum in plan.get("min_feats", {}).items():
        if not viols and feats.get(key, 0) < minimum:
            inconclusive.append(f"feature {key} observed {feats.get(key, 0)} times (floor {minimum})")

    # de-duplicate violations by kind for reporting
    by_kind = {}
    for v in viols:
        k = (v.get("engine"), v["kind"])
        by_kind.setdefault(k, []).append(v)
    replay_paths = []
    for (eng, kind), vs in sorted(by_kind.items(), key=lambda kv: str(kv[0])):
        vs.sort(key=lambda v: (len(v.get("desc", "")) or 10**9))
        path = write_replay(prop, seed, vs[0])
        replay_paths.append((kind, eng, len(vs), path, vs[0]))

    wall = round(time.time() - t0, 2)
    ev = dict(
        property_id=prop,
        tier=tier,
        seed=seed,
        level="exploration",
        coverage=dict(
            evaluations=evaluations,
            distinct_nontrivial=distinct,
            rule=plan["rule"],
            samples=samples if samples else ["(no non-trivial case was completed)"],
            comparisons=comparisons,
            engines=per_engine,
            features=feats,
            exhaustive=bool(plan.get("exhaustive", False)),
            known_findings_seen={k: len(v) for k, v in known_seen.items()},
            violation_kinds=[dict(kind=k, engine=e, count=c, replay=p) for (k, e, c, p, _) in replay_paths],
            inconclusive=inconclusive,
            what=plan.get("what", ""),
            **({"anchor_coverage": cov} if cov else {}),
        ),
        assumptions=plan.get("assumptions", []),
        wall_s=wall,
        violations=len(viols),
    )
    with open(os.path.join(EVID, f"{prop}.json"), "w") as f:
        json.dump(ev, f, indent=1)
    shutil.rmtree(tmpdir, ignore_errors=True)

    for k in known:
        hits = {sig: len(recs) for sig, recs in sorted(known_seen.items()) if sig.split()[0] == k["sig"]}
        if hits:
            where = ", ".join(f"{s.split(' ', 1)[1] if ' ' in s else s}: {n} cases" for s, n in hits.items())
            print(f"KNOWN-FINDING: property={prop} sig={k['sig']} ({where}) {k['what']}")
    log(f"{prop} {tier} seed={seed}: {evaluations} cases, {comparisons} comparisons, {distinct} distinct non-trivial, {len(viols)} violating records, {wall}s")
    if viols:
        for (kind, eng, cnt, path, v) in replay_paths:
            print(f"VIOLATION property={prop} replay={path}")
            print(f"  engine={eng} kind={kind} cases={cnt}")
            d = (v.get("detail") or "")
            print("  detail: " + d[:2500].replace("\n", "\n    "))
            if v.get("desc"):
                print("  case: " + v["desc"][:1200])
        return 1
    if inconclusive:
        for r in inconclusive[:5]:
            print(f"INCONCLUSIVE property={prop} reason={r[:600]}")
        return 2
    print(f"HELD property={prop} tier={tier} seed={seed} cases={evaluations} comparisons={comparisons} distinct_nontrivial={distinct} wall_s={wall}")
    return 0


def replay(prop, path):
    body = json.load(open(path))
    prop = body["property"]
    eng = body["engine"]
    ok, dt, msg = engines.build(eng, log)
    if not ok:
        print(f"INCONCLUSIVE property={prop} reason=build failed: {msg[-800:]}")
        return 2
    if body.get("index") is None:
        lo, hi = body["range"]
        args = [prop, "--seed", str(body["seed"]), "--lo", str(lo), "--hi", str(hi), "--markers"]
    else:
        args = [prop, "--seed", str(body["seed"]), "--case", str(body["index"]), "--markers"]
    for k, v in sorted(body.get("params", {}).items()):
        args += ["-p", f"{k}={v}"]
    argv, env = engines.command(eng, args, cpus=body.get("cpus"), miri_seed=body.get("miri_seed"), miri_cpus=body.get("miri_cpus"))
    print("recorded: kind=%s" % body.get("kind"))
    print("recorded case: %s" % body.get("case", "")[:3000])
    print("command: " + " ".join(argv))
    p = subprocess.run(argv, cwd=engines.HARNESS, env=env, stdout=subprocess.PIPE, stderr=subprocess.PIPE, text=True, timeout=1800)
    bad = False
    for line in p.stdout.splitlines():
        if line.startswith("{"):
            try:
                d = json.loads(line)
            except Exception:
                continue
            if d.get("t") in ("viol", "known"):
                bad = bad or d["t"] == "viol"
                print(f"{d['t']}: {d.get('kind', d.get('sig'))}: {d.get('detail')}")
            elif d.get("t") == "case":
                print(f"case: {d['desc'][:3000]}")
    cls = engines.classify_failure(eng, p.returncode, p.stderr)
    if cls:
        bad = True
        print(f"process: {cls[0]} at {cls[1]}\n{cls[2][-2500:]}")
    if bad:
        print(f"VIOLATION property={prop} replay={path}")
        return 1
    print("the recorded case no longer violates the property")
    return 0


def main(argv):
    if not argv:
        print(__doc__)
        return 3
    prop = argv[0]
    tier = os.environ.get("VERIF_TIER", "quick")
    rp = None
    i = 1
    while i < len(argv):
        if argv[i] == "--tier":
            tier = argv[i + 1]
            i += 1
        elif argv[i] == "--replay":
            rp = argv[i + 1]
            i += 1
        i += 1
    if tier not in ("quick", "thorough"):
        tier = "quick"
    try:
        seed = int(os.environ.get("VERIF_SEED", "0"))
    except ValueError:
        seed = 0
    seed &= (1 << 63) - 1
    os.chdir(VERIF)
    if rp:
        return replay(prop, rp)
    return run_check(prop, tier, seed)
