#!/usr/bin/env python3
"""dev helper: run one shard in the rel engine and summarise."""
import sys, json, subprocess, time
args = sys.argv[1:]
t=time.time()
p = subprocess.run(["/verif/target/stable/release/gverif"]+args, stdout=subprocess.PIPE, stderr=subprocess.PIPE, text=True)
kinds={}; known={}
for l in p.stdout.splitlines():
    if not l.startswith('{'): continue
    d=json.loads(l)
    if d['t']=='summary':
        d['samples']=[s[:160] for s in d['samples']]
        print(json.dumps(d)[:2200])
    elif d['t']=='viol':
        k=d['kind']; kinds.setdefault(k,[0,d]); kinds[k][0]+=1
    elif d['t']=='known':
        k=d['sig']; known.setdefault(k,[0,d]); known[k][0]+=1
    elif d['t']!='digest': print(str(d)[:400])
for k,(c,d) in kinds.items(): print('VIOL',c,k,'|',d['detail'][:300],'|',d['desc'][:300])
for k,(c,d) in known.items(): print('KNOWN',c,k,'|',d['detail'][:200])
print('rc',p.returncode,'time %.2f'%(time.time()-t), p.stderr[-500:])
