"""Engines: how the one harness is built and run in each profile."""
import os, subprocess, re, time

VERIF = os.path.dirname(os.path.dirname(os.path.abspath(__file__)))
HARNESS = os.path.join(VERIF, "harness")
TARGET = os.path.join(VERIF, "target")
TRIPLE = "x86_64-unknown-linux-gnu"


def base_env():
    e = dict(os.environ)
    e["CARGO_NET_OFFLINE"] = "true"
    e["RUST_BACKTRACE"] = "0"
    e.pop("RUSTFLAGS", None)
    e.pop("MIRIFLAGS", None)
    e.pop("CARGO_TARGET_DIR", None)
    return e


ENGINES = {
    "rel": dict(
        tdir="stable",
        build=["cargo", "build", "--release", "--offline"],
        bin=os.path.join(TARGET, "stable", "release", "gverif"),
        env={},
        run_env={},
    ),
    "chk": dict(
        tdir="stable",
        build=["cargo", "build", "--profile", "chk", "--offline"],
        bin=os.path.join(TARGET, "stable", "chk", "gverif"),
        env={},
        run_env={},
    ),
    "asan": dict(
        tdir="asan",
        build=["cargo", "+nightly", "build", "--release", "--offline", "--target", TRIPLE],
        bin=os.path.join(TARGET, "asan", TRIPLE, "release", "gverif"),
        env={"RUSTFLAGS": "-Zsanitizer=address -Cforce-frame-pointers=yes"},
        run_env={
            "ASAN_OPTIONS": "detect_leaks=1:halt_on_error=1:abort_on_error=0:exitcode=99:allocator_may_return_null=1:max_allocation_size_mb=8192",
            "LSAN_OPTIONS": "exitcode=98:print_suppressions=0:suppressions=" + os.path.join(VERIF, "driver", "lsan.supp"),
        },
    ),
    "tsan": dict(
        tdir="tsan",
        build=["cargo", "+nightly", "build", "--release", "--offline", "-Zbuild-std", "--target", TRIPLE],
        bin=os.path.join(TARGET, "tsan", TRIPLE, "release", "gverif"),
        env={"RUSTFLAGS": "-Zsanitizer=thread"},
        run_env={"TSAN_OPTIONS": "halt_on_error=1 exitcode=66 second_deadlock_stack=1"},
    ),
    "cov": dict(
        tdir="cov",
        build=["cargo", "+nightly", "build", "--release", "--offline"],
        bin=os.path.join(TARGET, "cov", "release", "gverif"),
        env={"RUSTFLAGS": "-Cinstrument-coverage"},
        run_env={},
    ),
    "miri": dict(
        tdir="miri",
        build=None,
        bin=None,
        env={},
        run_env={},
    ),
}

_built = {}


def build(engine, log):
    """Build the harness for `engine` from /repo's current working tree.
    Returns (ok, seconds, message)."""
    if engine in _built:
        return _built[engine]
    spec = ENGINES[engine]
    t0 = time.time()
    env = base_env()
    env.update(spec["env"])
    env["CARGO_TARGET_DIR"] = os.path.join(TARGET, spec["tdir"])
    if engine == "miri":
        # compile once (serially) so that parallel shards find a fresh build
        env["MIRIFLAGS"] = "-Zmiri-permissive-provenance -Zmiri-disable-isolation"
        cmd = ["cargo", "+nightly", "miri", "run", "--offline", "--", "C19", "--lo", "0", "--hi", "0"]
    else:
        cmd = spec["build"]
    p = subprocess.run(cmd, cwd=HARNESS, env=env, stdout=subprocess.PIPE, stderr=subprocess.STDOUT, text=True)
    dt = time.time() - t0
    ok = p.returncode == 0
    msg = "" if ok else p.stdout[-3000:]
    log(f"build {engine}: {'ok' if ok else 'FAILED'} in {dt:.1f}s")
    _built[engine] = (ok, dt, msg)
    return _built[engine]


def llvm_tool(name):
    import glob
    c = glob.glob(os.path.expanduser(f"~/.rustup/toolchains/nightly-*/lib/rustlib/*/bin/{name}"))
    return c[0] if c else None


def command(engine, args, cpus=None, miri_seed=None, miri_cpus=None, miri_many=None):
    """argv and env for running the harness with `args` under `engine`."""
    spec = ENGINES[engine]
    env = base_env()
    env.update(spec["run_env"])
    if engine == "miri":
        env["CARGO_TARGET_DIR"] = os.path.join(TARGET, "miri")
        flags = ["-Zmiri-permissive-provenance", "-Zmiri-disable-isolation"]
        if miri_cpus:
            flags.append(f"-Zmiri-num-cpus={miri_cpus}")
        if miri_many:
            flags.append(f"-Zmiri-many-seeds={miri_many}")
        elif miri_seed is not None:
            flags.append(f"-Zmiri-seed={miri_seed}")
        env["MIRIFLAGS"] = " ".join(flags)
        argv = ["cargo", "+nightly", "miri", "run", "--offline", "-q", "--"] + args
    else:
        argv = [spec["bin"]] + args
    if cpus:
        # never ask for more CPUs than this process may use
        allowed = sorted(os.sched_getaffinity(0))
        use = allowed[: max(1, min(cpus, len(allowed)))]
        argv = ["taskset", "-c", ",".join(str(c) for c in use)] + argv
    return argv, env


def excerpt(stderr):
    """The informative part of a report: from the first error marker, a few frames, and the summary."""
    lines = stderr.splitlines()
    start = 0
    for i, l in enumerate(lines):
        if ("ERROR: AddressSanitizer" in l or "WARNING: ThreadSanitizer" in l or "LeakSanitizer" in l or l.startswith("error:")
                or "unsafe precondition" in l or "non-unwinding panic" in l):
            start = i
            break
    else:
        return stderr[-3000:]
    head = lines[start:start + 28]
    summ = [l for l in lines[start + 28:] if l.startswith("SUMMARY:") or "in repo frame" in l]
    repo = [l.strip() for l in lines[start:] if "/repo/src/" in l][:6]
    out = head + (["  ..."] if len(lines) > start + 28 else []) + ["  frames in /repo: "] + ["    " + x for x in repo] + summ[:2]
    return "\n".join(out)[:5000]


FRAME = re.compile(r"(/repo/src/[\w/]+\.rs):(\d+)")


def classify_failure(engine, rc, stderr):
    """Name the kind of an abnormal process end; returns (kind, site, excerpt) or None
    if the end is not attributable to the code under test."""
    tail = excerpt(stderr)
    m = FRAME.search(stderr)
    site = m.group(1) if m else ""
    if "AddressSanitizer" in stderr and "ERROR: AddressSanitizer" in stderr:
        k = re.search(r"ERROR: AddressSanitizer: ([\w-]+)", stderr)
        kind = "asan:" + (k.group(1) if k else "error")
        if kind in ("asan:requested", "asan:allocation-size-too-big", "asan:out-of-memory"):
            return None
        return (kind, site, tail)
    if "LeakSanitizer: detected memory leaks" in stderr:
        return ("lsan:leak", site, tail)
    if "ThreadSanitizer" in stderr and "WARNING: ThreadSanitizer" in stderr:
        k = re.search(r"WARNING: ThreadSanitizer: ([\w -]+?) \(", stderr)
        return ("tsan:" + (k.group(1).strip().replace(" ", "-") if k else "report"), site, tail)
    if engine == "miri":
        if "Undefined Behavior" in stderr:
            k = re.search(r"error: Undefined Behavior: (.*)", stderr)
            first = k.group(1)[:160] if k else ""
            kind = "miri:data-race" if "Data race" in first else "miri:UB"
            return (kind, site, tail)
        if "memory leaked" in stderr:
            return ("miri:leak", site, tail)
        if "error: unsupported operation" in stderr or "error: abnormal termination" in stderr:
            return None
        if "deadlock" in stderr:
            return ("miri:deadlock", site, tail)
        return None
    if "unsafe precondition(s) violated" in stderr:
        return ("ub-precondition-check", site, tail)
    if "memory allocation of" in stderr and "failed" in stderr:
        return None
    if rc is not None and rc < 0:
        import signal as _s
        try:
            name = _s.Signals(-rc).name
        except Exception:
            name = str(-rc)
        if name in ("SIGKILL", "SIGTERM"):
            return None
        return ("signal:" + name, site, tail)
    if "panic in a function that cannot unwind" in stderr or "panicked" in stderr:
        return ("abort:non-unwinding-panic", site, tail)
    return None
