#!/bin/sh
# Pre-builds the harness in the profiles the quick checks use. Offline.
set -e
cd "$(dirname "$0")"
export CARGO_NET_OFFLINE=true
python3 - <<'PY'
import sys, os
sys.path.insert(0, os.path.join(os.getcwd(), "driver"))
import engines
bad = 0
for e in ("rel", "chk", "asan", "miri"):
    ok, dt, msg = engines.build(e, lambda m: print(m, flush=True))
    if not ok:
        print(msg)
        bad = 1
sys.exit(bad)
PY
