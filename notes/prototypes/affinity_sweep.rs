use graaf::*;
use std::collections::BTreeSet;
struct Rng(u64);
impl Rng { fn next(&mut self)->u64{ self.0=self.0.wrapping_add(0x9E3779B97F4A7C15); let mut z=self.0; z=(z^(z>>30)).wrapping_mul(0xBF58476D1CE4E5B9); z=(z^(z>>27)).wrapping_mul(0x94D049BB133111EB); z^(z>>31)} fn below(&mut self,n:usize)->usize{ (self.next()% (n as u64)) as usize } fn chance(&mut self,p:f64)->bool{ (((self.next()>>11) as f64) / ((1u64<<53) as f64)) < p } }
fn rand_arcs(r:&mut Rng,n:usize,p:f64)->BTreeSet<(usize,usize)>{ let mut s=BTreeSet::new(); for u in 0..n{for v in 0..n{ if u!=v && r.chance(p){s.insert((u,v));}}} s }
fn al(n:usize,a:&BTreeSet<(usize,usize)>)->AdjacencyList{ let mut d=AdjacencyList::empty(n); for &(u,v) in a{d.add_arc(u,v);} d}
fn am(n:usize,a:&BTreeSet<(usize,usize)>)->AdjacencyMap{ let mut d=AdjacencyMap::empty(n); for &(u,v) in a{d.add_arc(u,v);} d}
fn main(){
    let mut r=Rng(7); let mut cnt=0;
    let t=std::thread::available_parallelism().unwrap().get();
    for &n in &[1usize,2,3,4,5,7,8,9,15,16,17,31,33,47,64,65,100]{
        for &p in &[0.0,0.1,0.5,0.9,1.0]{
            let a=rand_arcs(&mut r,n,p); let d=al(n,&a);
            let c=d.complement(); let want:BTreeSet<(usize,usize)>=(0..n).flat_map(|u|(0..n).map(move|v|(u,v))).filter(|&(u,v)|u!=v&&!a.contains(&(u,v))).collect();
            assert_eq!(c.order(),n); assert_eq!(c.arcs().collect::<BTreeSet<_>>(),want,"complement n={n}");
            let k=AdjacencyList::complete(n); assert_eq!(k.arcs().count(),n*(n-1)); assert_eq!(k.order(),n); assert!(k.arcs().all(|(u,v)|u!=v&&u<n&&v<n));
            let ds:Vec<usize>=d.degree_sequence().collect(); let w:Vec<usize>=(0..n).map(|x|a.iter().filter(|&&(u,v)|u==x||v==x).count()).collect(); assert_eq!(ds,w);
            let semi=(0..n).all(|u|(0..n).all(|v|u==v||a.contains(&(u,v))||a.contains(&(v,u)))); assert_eq!(d.is_semicomplete(),semi);
            let n2=[n,n+1,n/2+1,2*n+3][r.below(4)]; let b=rand_arcs(&mut r,n2,p); let e=al(n2,&b); let u=d.union(&e); assert_eq!(u.order(),n.max(n2)); assert_eq!(u.arcs().collect::<BTreeSet<_>>(),a.union(&b).copied().collect::<BTreeSet<_>>());
            let x=am(n,&a); let y=am(n2,&b); let u=x.union(&y); assert_eq!(u.order(),n.max(n2)); assert_eq!(u.arcs().collect::<BTreeSet<_>>(),a.union(&b).copied().collect::<BTreeSet<_>>());
            let rt=AdjacencyMap::random_tournament(n,p.to_bits()); assert!(n<2||rt.is_tournament()); assert_eq!(rt,AdjacencyMap::random_tournament(n,p.to_bits()));
            let er=AdjacencyMap::erdos_renyi(n,p,3); assert_eq!(er,AdjacencyMap::erdos_renyi(n,p,3)); assert!(er.arcs().all(|(u,v)|u!=v&&u<n&&v<n)); if p==0.0{assert_eq!(er.size(),0);} if p==1.0{assert_eq!(er.size(),n*(n-1));}
            cnt+=1;
        }
    }
    println!("t={t} cases={cnt} ok");
}
