//! Instrumentation hooks for runtime monitoring. Compiled only with the
//! `verif` feature.

use std::sync::atomic::{
    AtomicU64,
    AtomicUsize,
    Ordering::Relaxed,
};

const CAP: usize = 1 << 14;

#[allow(clippy::declare_interior_mutable_const)]
const ZERO: AtomicU64 = AtomicU64::new(0);

static LOG: [AtomicU64; CAP * 4] = [ZERO; CAP * 4];
static CURSOR: AtomicUsize = AtomicUsize::new(0);
static DELAY: AtomicU64 = AtomicU64::new(0);

/// Set the delay seed; zero disables delays.
pub fn set_delay_seed(seed: u64) {
    DELAY.store(seed, Relaxed);
}

/// Forget all recorded events.
pub fn reset() {
    CURSOR.store(0, Relaxed);
}

/// Record an event and maybe delay the calling thread.
pub fn span(site: u64, kind: u64, lo: usize, hi: usize) {
    let i = CURSOR.fetch_add(1, Relaxed);

    if i < CAP {
        LOG[i * 4].store(site << 8 | kind, Relaxed);
        LOG[i * 4 + 1].store(lo as u64, Relaxed);
        LOG[i * 4 + 2].store(hi as u64, Relaxed);
        LOG[i * 4 + 3].store(1, Relaxed);
    }

    let seed = DELAY.load(Relaxed);

    if seed != 0 {
        let mut z = seed ^ site.wrapping_mul(0x9E37_79B9_7F4A_7C15) ^ (lo as u64) << 17 ^ kind;

        z = (z ^ (z >> 30)).wrapping_mul(0xBF58_476D_1CE4_E5B9);
        z ^= z >> 31;

        match z & 3 {
            1 => std::thread::yield_now(),
            2 => {
                for _ in 0..(z >> 8 & 0xFFF) {
                    std::hint::spin_loop();
                }
            }
            3 => std::thread::sleep(std::time::Duration::from_micros(50 + (z >> 8 & 0xFF))),
            _ => (),
        }
    }
}

/// Return the recorded events as `(site, kind, lo, hi)`.
#[must_use]
pub fn drain() -> Vec<(u64, u64, usize, usize)> {
    let n = CURSOR.load(Relaxed).min(CAP);

    (0..n)
        .filter(|&i| LOG[i * 4 + 3].load(Relaxed) == 1)
        .map(|i| {
            let a = LOG[i * 4].load(Relaxed);

            (
                a >> 8,
                a & 0xFF,
                LOG[i * 4 + 1].load(Relaxed) as usize,
                LOG[i * 4 + 2].load(Relaxed) as usize,
            )
        })
        .collect()
}
