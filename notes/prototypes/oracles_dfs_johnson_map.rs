use graaf::*;
use std::collections::{BTreeSet, BTreeMap};
use std::iter::once;

struct Rng(u64);
impl Rng { fn next(&mut self)->u64{ self.0=self.0.wrapping_add(0x9E3779B97F4A7C15); let mut z=self.0; z=(z^(z>>30)).wrapping_mul(0xBF58476D1CE4E5B9); z=(z^(z>>27)).wrapping_mul(0x94D049BB133111EB); z^(z>>31)} fn below(&mut self,n:usize)->usize{ (self.next()% (n as u64)) as usize } fn chance(&mut self,p:f64)->bool{ (((self.next()>>11) as f64) / ((1u64<<53) as f64)) < p } }

fn rand_arcs(r:&mut Rng,n:usize,p:f64)->BTreeSet<(usize,usize)>{ let mut s=BTreeSet::new(); for u in 0..n{for v in 0..n{ if u!=v && r.chance(p){s.insert((u,v));}}} s }
fn al(n:usize,a:&BTreeSet<(usize,usize)>)->AdjacencyList{ let mut d=AdjacencyList::empty(n); for &(u,v) in a{d.add_arc(u,v);} d}
fn am(n:usize,a:&BTreeSet<(usize,usize)>)->AdjacencyMap{ let mut d=AdjacencyMap::empty(n); for &(u,v) in a{d.add_arc(u,v);} d}
fn out(n:usize,a:&BTreeSet<(usize,usize)>)->Vec<Vec<usize>>{ let mut o=vec![vec![];n]; for &(u,v) in a{o[u].push(v);} o}

// C06 oracle
fn check_dfs(n:usize,a:&BTreeSet<(usize,usize)>,srcs:&[usize],seq:&[(Option<usize>,usize,usize)])->Result<(),String>{
    let o=out(n,a); let mut yielded=vec![false;n]; let mut path:Vec<(usize,usize)>=vec![];
    for &(p,v,d) in seq{
        if yielded[v]{return Err(format!("dup {v}"));}
        while let Some(&(t,_))=path.last(){ if o[t].iter().any(|&x|!yielded[x]){break;} path.pop(); }
        match path.last(){
            None=>{ if !srcs.contains(&v){return Err(format!("root {v} not a source"));} if p.is_some()||d!=0{return Err(format!("root {v} pred {p:?} depth {d}"));} }
            Some(&(t,td))=>{ if !o[t].contains(&v){return Err(format!("{v} not nbr of deepest {t}"));} if p!=Some(t){return Err(format!("pred of {v} is {p:?} want {t}"));} if d!=td+1{return Err(format!("depth"));} }
        }
        yielded[v]=true; path.push((v,d));
    }
    // reachable
    let mut reach=vec![false;n]; let mut st:Vec<usize>=srcs.to_vec(); while let Some(u)=st.pop(){ if reach[u]{continue;} reach[u]=true; for &x in &o[u]{st.push(x);} }
    for v in 0..n{ if reach[v]!=yielded[v]{return Err(format!("reach mismatch at {v}: reach={} yielded={}",reach[v],yielded[v]));}}
    Ok(())
}
fn dfs_ref(n:usize,a:&BTreeSet<(usize,usize)>,srcs:&[usize],truncate:bool)->Vec<(Option<usize>,usize,usize)>{
    let o=out(n,a); let mut vis=vec![false;n]; let mut st:Vec<(Option<usize>,usize,usize)>=srcs.iter().map(|&s|(None,s,0)).collect(); let mut res=vec![];
    while let Some((p,v,d))=st.pop(){ if vis[v]{ if truncate{break;} else {continue;} } vis[v]=true; for &x in &o[v]{ if !vis[x]{st.push((Some(v),x,d+1));} } res.push((p,v,d)); }
    res }
fn circuits_brute(n:usize,a:&BTreeSet<(usize,usize)>)->BTreeSet<Vec<usize>>{
    let o=out(n,a); let mut res=BTreeSet::new();
    fn go(o:&Vec<Vec<usize>>,s:usize,path:&mut Vec<usize>,on:&mut Vec<bool>,res:&mut BTreeSet<Vec<usize>>){ let u=*path.last().unwrap(); for &v in &o[u]{ if v==s{ if path.len()>=2{res.insert(path.clone());} } else if v>s && !on[v]{ on[v]=true; path.push(v); go(o,s,path,on,res); path.pop(); on[v]=false; } } }
    for s in 0..n{ let mut on=vec![false;n]; on[s]=true; go(&o,s,&mut vec![s],&mut on,&mut res);} res }

fn main(){
    let mut r=Rng(std::env::args().nth(1).and_then(|s|s.parse().ok()).unwrap_or(1));
    let mut dfs_bad=0; let mut dfs_ok=0; let mut first=None;
    let mut jn=0; let mut cyc=0; let mut un=0;
    for it in 0..20000{
        let n=1+r.below(9); let p=[0.1,0.2,0.3,0.5,0.8][r.below(5)]; let a=rand_arcs(&mut r,n,p);
        let d=al(n,&a);
        // sources
        let k=r.below(n.min(3)+1); let mut srcs=vec![]; while srcs.len()<k{ let s=r.below(n); if !srcs.contains(&s){srcs.push(s);} }
        // dfs pred + dist combined
        let sp:Vec<_>=DfsPred::new(&d,srcs.iter().copied()).collect(); let sd:Vec<_>=DfsDist::new(&d,srcs.iter().copied()).collect(); let s0:Vec<_>=Dfs::new(&d,srcs.iter().copied()).collect();
        assert_eq!(sp.len(),sd.len()); assert_eq!(s0.len(),sd.len());
        let seq:Vec<_>=sp.iter().zip(sd.iter()).map(|(&(p,v),&(v2,dd))|{assert_eq!(v,v2);(p,v,dd)}).collect();
        let full=dfs_ref(n,&a,&srcs,false); let trunc=dfs_ref(n,&a,&srcs,true); assert!(check_dfs(n,&a,&srcs,&full).is_ok(),"oracle rejects intended ref"); assert_eq!(seq,trunc,"observed != truncated signature"); match check_dfs(n,&a,&srcs,&seq){Ok(())=>{dfs_ok+=1; assert_eq!(seq,full);},Err(e)=>{dfs_bad+=1; assert_ne!(full,trunc); if first.is_none(){first=Some((n,a.clone(),srcs.clone(),seq.clone(),e));}}}
        // BfsPred cycles elementary
        if !srcs.is_empty(){ for c in BfsPred::new(&d,srcs.iter().copied()).cycles(){ cyc+=1; assert!(c.len()>=2,"short cycle {c:?}"); let set:BTreeSet<_>=c.iter().collect(); assert_eq!(set.len(),c.len(),"dup in cycle {c:?} arcs {a:?} srcs {srcs:?}"); for i in 0..c.len(){ assert!(a.contains(&(c[i],c[(i+1)%c.len()])),"non-arc in {c:?} arcs {a:?} srcs {srcs:?}"); } } }
        // johnson
        if n<=7 && it%4==0 { let m=am(n,&a); let got=Johnson75::new(&m).circuits(); let gs:BTreeSet<_>=got.iter().cloned().collect(); assert_eq!(gs.len(),got.len(),"dup circuits"); let want=circuits_brute(n,&a); assert_eq!(gs,want,"johnson mismatch arcs {a:?}"); jn+=1; }
        // AM union noncontiguous
        { let ids=[0usize,2,3,7,64,65,1000,5]; let mk=|r:&mut Rng|{ let mut m=AdjacencyMap::empty(1+r.below(3)); let mut va:BTreeSet<usize>=m.vertices().collect(); let mut aa=BTreeSet::new(); for _ in 0..r.below(8){ let u=ids[r.below(8)]; let v=ids[r.below(8)]; if u!=v{ m.add_arc(u,v); va.insert(u); va.insert(v); aa.insert((u,v)); } } (m,va,aa)};
          let (x,xv,xa)=mk(&mut r); let (y,yv,ya)=mk(&mut r); let u=x.union(&y); let wv:BTreeSet<usize>=xv.union(&yv).copied().collect(); let wa:BTreeSet<(usize,usize)>=xa.union(&ya).copied().collect(); assert_eq!(u.vertices().collect::<BTreeSet<_>>(),wv); assert_eq!(u.arcs().collect::<BTreeSet<_>>(),wa); un+=1;
          let c=x.complement(); let cv:BTreeSet<usize>=c.vertices().collect(); assert_eq!(cv,xv); for &s in &xv{for &t in &xv{ assert_eq!(c.has_arc(s,t), s!=t && !xa.contains(&(s,t))); }}
          let c=x.converse(); assert_eq!(c.vertices().collect::<BTreeSet<_>>(),xv); assert_eq!(c.arcs().collect::<BTreeSet<_>>(), xa.iter().map(|&(s,t)|(t,s)).collect::<BTreeSet<_>>());
          let semi=xv.iter().all(|&s|xv.iter().all(|&t| s==t||xa.contains(&(s,t))||xa.contains(&(t,s)))); assert_eq!(x.is_semicomplete(),semi);
          let tour=xv.iter().all(|&s|xv.iter().all(|&t| s==t||(xa.contains(&(s,t))^xa.contains(&(t,s))))); assert_eq!(x.is_tournament(),tour,"V={xv:?} A={xa:?}");
        }
    }
    println!("dfs ok={dfs_ok} bad={dfs_bad} cycles={cyc} johnson={jn} unions={un}");
    if let Some(f)=first{println!("first dfs bad: {f:?}");}
}
