use graaf::*;
use std::iter::once;
fn main() {
    let which = std::env::args().nth(1).unwrap_or_default();
    match which.as_str() {
        "dijkstra" => {
            let mut d = AdjacencyListWeighted::<usize>::empty(4);
            d.add_arc_weighted(0, 1, 10);
            d.add_arc_weighted(0, 2, 1);
            d.add_arc_weighted(2, 1, 1);
            d.add_arc_weighted(0, 3, 20);
            println!("{:?}", DijkstraDist::new(&d, once(0)).distances());
            println!("{:?}", Dijkstra::new(&d, once(0)).collect::<Vec<_>>());
        }
        "dfs" => {
            let mut d = AdjacencyList::empty(4);
            d.add_arc(0, 1); d.add_arc(0, 2); d.add_arc(0, 3); d.add_arc(3, 2);
            println!("{:?}", Dfs::new(&d, once(0)).collect::<Vec<_>>());
        }
        "bfs_oob" => {
            let d = AdjacencyList::empty(4);
            let b = Bfs::new(&d, once(1000));
            println!("{:?}", b.count());
        }
        "union_leak" => {
            let a = AdjacencyMap::cycle(5);
            let b = AdjacencyMap::path(7);
            for _ in 0..3 { let u = a.union(&b); assert_eq!(u.order(), 7); }
        }
        "map_noncontig" => {
            let mut d = AdjacencyMap::empty(1);
            d.add_arc(0, 5);
            println!("V={:?} A={:?}", d.vertices().collect::<Vec<_>>(), d.arcs().collect::<Vec<_>>());
            let c = d.complement();
            println!("compl V={:?} A={:?}", c.vertices().collect::<Vec<_>>(), c.arcs().collect::<Vec<_>>());
            println!("semi {:?}", d.is_semicomplete());
            println!("tourn {:?}", d.is_tournament());
            let c = d.converse();
            println!("conv V={:?} A={:?}", c.vertices().collect::<Vec<_>>(), c.arcs().collect::<Vec<_>>());
        }
        "matrix_big" => {
            let mut d = AdjacencyMatrix::empty(1usize << 32);
            d.add_arc(0, 1);
            println!("ok {}", d.size());
        }
        "predtree" => {
            let p = PredecessorTree::from(vec![Some(1), Some(1000)]);
            println!("{:?}", p.search(0, 7));
        }
        _ => {}
    }
}
