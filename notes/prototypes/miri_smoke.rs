use graaf::*;
use std::iter::once;
use std::time::Instant;
fn t(name: &str, f: impl FnOnce()) { let s = Instant::now(); f(); eprintln!("{name}: {:?}", s.elapsed()); }
fn main() {
    let n: usize = std::env::args().nth(1).and_then(|s| s.parse().ok()).unwrap_or(7);
    t("al_complete", || { let d = AdjacencyList::complete(n); assert_eq!(d.size(), n*(n-1)); });
    t("al_complement", || { let d = AdjacencyList::erdos_renyi(n, 0.3, 1).complement(); assert!(d.order()==n); });
    t("al_union", || { let d = AdjacencyList::cycle(n).union(&AdjacencyList::path(n+3)); assert!(d.order()==n+3); });
    t("al_degseq", || { let d = AdjacencyList::erdos_renyi(n, 0.5, 2); let _ = d.degree_sequence().collect::<Vec<_>>(); });
    t("al_semi", || { let d = AdjacencyList::random_tournament(n, 2); assert!(d.is_semicomplete()); assert!(d.is_tournament()); });
    t("al_misc", || { let d = AdjacencyList::erdos_renyi(n, 0.5, 2); let _ = d.in_neighbors(0).count(); let _ = d.indegree_sequence().count(); assert!(!d.has_walk(&[0])); let _=d.has_walk(&[0,1,2]); let _ = d.converse(); });
    t("am_union", || { let d = AdjacencyMap::cycle(n).union(&AdjacencyMap::path(n+3)); assert!(d.order()==n+3); });
    t("am_rt", || { let d = AdjacencyMap::random_tournament(n, 3); assert!(d.is_tournament()); });
    t("am_er", || { let d = AdjacencyMap::erdos_renyi(n, 0.7, 3); assert!(d.order()==n); let _ = d.converse(); let _ = d.is_semicomplete(); });
    t("am_rrt", || { let d = AdjacencyMap::random_recursive_tree(n, 3); assert!(d.size()==n-1); });
    t("mx", || { let mut d = AdjacencyMatrix::erdos_renyi(n+2, 0.5, 3); d.toggle(0,1); let _ = d.remove_arc(1,2); let _=d.arcs().count(); let _ = d.complement(); });
    t("bfs", || { let d = AdjacencyList::erdos_renyi(n, 0.3, 5); let _ = Bfs::new(&d, once(0)).count(); let _ = BfsDist::new(&d, once(0)).distances(); let _ = BfsPred::new(&d, once(0)).predecessors(); let _ = BfsPred::new(&d, once(0)).cycles(); let _ = BfsPred::new(&d, once(0)).shortest_path(|v| v == n-1); });
    t("dfs", || { let d = AdjacencyList::erdos_renyi(n, 0.3, 5); let _ = Dfs::new(&d, once(0)).count(); let _ = DfsDist::new(&d, once(0)).count(); let _ = DfsPred::new(&d, once(0)).predecessors(); });
    t("dijkstra", || { let d0 = AdjacencyList::erdos_renyi(n, 0.4, 5); let d = AdjacencyListWeighted::<usize>::from(d0); let _ = Dijkstra::new(&d, once(0)).count(); let _ = DijkstraDist::new(&d, once(0)).distances(); let _ = DijkstraPred::new(&d, once(0)).predecessors(); let _ = DijkstraPred::new(&d, once(0)).shortest_path(|v| v == n-1); });
    t("bfm_fw", || { let d0 = AdjacencyList::erdos_renyi(n, 0.4, 5); let d = AdjacencyListWeighted::<isize>::from(d0); let _ = BellmanFordMoore::new(&d, 0).distances().map(|x| x.len()); let mut fw = FloydWarshall::new(&d); let m = fw.distances(); let _ = m.center(); let _ = m.periphery().count(); let _ = m.diameter(); let _ = m.is_connected(); });
    t("tarjan_johnson", || { let d = AdjacencyMap::erdos_renyi(n.min(6), 0.4, 5); let _ = Tarjan::new(&d).components().len(); let _ = Johnson75::new(&d).circuits().len(); });
    t("predtree", || { let p = PredecessorTree::from(vec![Some(1), Some(2), Some(0), None]); let _ = p.search(0, 3); let _ = p.search_by(0, |_, b| b.is_none()); });
}
