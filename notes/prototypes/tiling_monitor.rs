use graaf::*;
fn main() {
    let n: usize = std::env::args().nth(1).and_then(|s| s.parse().ok()).unwrap_or(40);
    let seed: u64 = std::env::args().nth(2).and_then(|s| s.parse().ok()).unwrap_or(0);
    let a = AdjacencyList::erdos_renyi(n, 0.3, 1);
    let b = AdjacencyList::erdos_renyi(n + 3, 0.3, 2);
    let mut sigs = std::collections::BTreeSet::new();
    let mut overlaps = 0;
    for rep in 0..20u64 {
        graaf::verif::set_delay_seed(if seed == 0 { 0 } else { seed + rep });
        graaf::verif::reset();
        let u = a.union(&b);
        assert_eq!(u.order(), n + 3);
        let ev = graaf::verif::drain();
        let mut begins: Vec<(usize, usize)> = ev.iter().filter(|e| e.1 == 0).map(|e| (e.2, e.3)).collect();
        begins.sort();
        let mut pos = 0; let mut ok = true;
        for &(lo, hi) in &begins { if lo != pos || hi <= lo { ok = false; } pos = hi; }
        if pos != n + 3 { ok = false; }
        if !ok { overlaps += 1; }
        sigs.insert(ev.iter().map(|e| (e.1, e.2)).collect::<Vec<_>>());
    }
    println!("tiling violations in {overlaps}/20 calls; distinct interleaving signatures: {}", sigs.len());
}
