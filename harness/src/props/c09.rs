//! C09 — Tarjan partitions the vertices into the strongly connected
//! components.

use crate::ctx::CaseOut;
use crate::gen;
use crate::model::Model;
use crate::reprs::*;
use crate::rng::{Fp, Rng};
use crate::Params;
use graaf::*;
use std::collections::BTreeSet;

pub const TYPES: [&str; 7] = ["AdjacencyList", "AdjacencyMap", "AdjacencyMatrix", "EdgeList", "AdjacencyListWeighted<usize>", "AdjacencyMap(non-contiguous)", "user-defined view (lazy iterators)"];

/// Classes of mutual reachability. For big inputs the closure per vertex is
/// too slow, so use: v ~ u iff v in reach(u) and u in reach^-1... computed as
/// forward reach from u intersected with forward reach in the converse.
pub fn sccs_fast(m: &Model) -> BTreeSet<BTreeSet<usize>> {
    if m.n() <= 40 {
        return m.sccs();
    }
    let conv = m.converse();
    let mut out = BTreeSet::new();
    let mut done: BTreeSet<usize> = BTreeSet::new();
    for &u in &m.verts {
        if done.contains(&u) {
            continue;
        }
        let f = m.reach(&[u]);
        let b = conv.reach(&[u]);
        let c: BTreeSet<usize> = f.intersection(&b).copied().collect();
        for &v in &c {
            done.insert(v);
        }
        out.insert(c);
    }
    out
}

/// A user-defined representation: the property quantifies over every type
/// implementing OutNeighbors + Vertices. Its iterators are lazy adaptors with
/// inexact size hints (filter / chain).
#[derive(Clone, Debug)]
pub struct View {
    m: Model,
    split: usize,
}

impl Vertices for View {
    fn vertices(&self) -> impl Iterator<Item = usize> {
        let s = self.split;
        self.m.verts.iter().copied().filter(move |&v| v < s).chain(self.m.verts.iter().copied().filter(move |&v| v >= s))
    }
}

impl OutNeighbors for View {
    fn out_neighbors(&self, u: usize) -> impl Iterator<Item = usize> {
        assert!(self.m.verts.contains(&u), "u = {u} isn't in the digraph");
        self.m.arcs.keys().filter(move |a| a.0 == u).map(|a| a.1)
    }
}

pub fn check<D: OutNeighbors + Vertices + Clone>(d: &D, other: &D, m: &Model, o: &mut CaseOut) {
    let mut t = Tarjan::new(d);
    let comps: Vec<BTreeSet<usize>> = t.components().clone();
    let total: usize = comps.iter().map(BTreeSet::len).sum();
    let all: BTreeSet<usize> = comps.iter().flatten().copied().collect();
    o.check(total == m.n() && all == m.verts && comps.iter().all(|c| !c.is_empty()), "not-a-partition", || format!("components {comps:?} of V {:?}", m.vert_list()));
    let got: BTreeSet<BTreeSet<usize>> = comps.iter().cloned().collect();
    let want = sccs_fast(m);
    o.check(got == want, "components", || crate::ctx::clip(&format!("got {got:?} want {want:?}")));
    // asking again (or asking a clone) must give the same partition
    let again: Vec<BTreeSet<usize>> = t.components().clone();
    o.check(again == comps, "components-differ-on-second-call", || crate::ctx::clip(&format!("first {comps:?} second {again:?}")));
    {
        // the destination was created for ANOTHER digraph and has been used
        let mut x = Tarjan::new(other);
        let _ = x.components().len();
        x.clone_from(&Tarjan::new(d));
        let via: Vec<BTreeSet<usize>> = x.components().clone();
        o.check(via == comps, "components-differ-after-clone_from", || crate::ctx::clip(&format!("first {comps:?} via clone_from {via:?}")));
    }
    let mut c = t.clone();
    let cloned: Vec<BTreeSet<usize>> = c.components().clone();
    o.check(cloned == comps, "components-differ-on-a-clone", || crate::ctx::clip(&format!("first {comps:?} clone {cloned:?}")));
    if m.n() <= 300 {
        // a third and a fourth call; `c` is by now a used clone of a used object
        for nth in 3..=4 {
            let later: Vec<BTreeSet<usize>> = t.components().clone();
            o.check(later == comps, "components-differ-on-a-later-call", || crate::ctx::clip(&format!("first {comps:?} call {nth}: {later:?}")));
        }
        let mut cc = c.clone();
        let via_used: Vec<BTreeSet<usize>> = cc.components().clone();
        o.check(via_used == comps, "components-differ-on-a-clone-of-a-used-object", || crate::ctx::clip(&format!("first {comps:?} clone of used {via_used:?}")));
    }
}

pub fn case(idx: u64, seed: u64, p: &Params, o: &mut CaseOut) {
    let mut r = Rng::for_case(9, seed, idx);
    let max = p.usize("max_order", 16);
    let mut fam = if r.chance(0.35) { 14 } else { r.below(gen::FAMILIES.len()) };
    let n = gen::algo_order(&mut r, max, 257);
    if n > max && fam != 14 {
        fam = gen::sparse_family(&mut r);
    }
    let mut m = gen::family(&mut r, fam, n);
    if n > max && r.chance(0.4) {
        // sparse random arcs near the density where big components appear
        let k = r.range(1, 3);
        m = gen::sparse_random(&mut r, n, k);
        fam = 0;
    }
    let huge = p.usize("huge_per_100k", 60);
    if r.below(100_000) < huge {
        // deep recursion: a long circuit / path with a few extra arcs
        let n = r.range(1100, p.usize("huge_max", 2600));
        fam = if r.chance(0.7) { 4 } else { 3 };
        m = gen::family(&mut r, fam, n);
        for _ in 0..r.below(6) {
            let (u, v) = (r.below(n), r.below(n));
            if u != v {
                m.add(u, v, 1);
            }
        }
        o.bump("huge_order");
    }
    let ty = r.below(7);
    let on = if r.chance(0.5) { m.n().min(300) } else { r.range(1, 12) };
    let om = gen::family(&mut r, 5, on);
    match ty {
        0 => check(&AdjacencyList::build(&m), &AdjacencyList::build(&om), &m, o),
        1 => check(&AdjacencyMap::build(&m), &AdjacencyMap::build(&om), &m, o),
        2 => check(&AdjacencyMatrix::build(&m), &AdjacencyMatrix::build(&om), &m, o),
        3 => check(&EdgeList::build(&m), &EdgeList::build(&om), &m, o),
        4 => check(&build_w_usize(&m), &build_w_usize(&om), &m, o),
        6 => {
            let split = r.below(m.n() + 1);
            if r.chance(0.5) {
                m = gen::sparsify(&mut r, &m);
            }
            check(&View { m: m.clone(), split }, &View { m: om.clone(), split: 0 }, &m, o);
        }
        _ => {
            m = gen::sparsify(&mut r, &m);
            if r.chance(0.15) {
                // the largest legal vertex id
                let top = *m.verts.iter().max().unwrap();
                let big = if r.chance(0.7) { usize::MAX } else { usize::MAX - 1 };
                let f = |v: usize| if v == top { big } else { v };
                m = Model {
                    verts: m.verts.iter().map(|&v| f(v)).collect(),
                    arcs: m.arcs.iter().map(|(&(u, v), &w)| ((f(u), f(v)), w)).collect(),
                };
                o.bump("vertex_id_usize::MAX");
            }
            check(&build_map_any(&m), &build_map_any(&om), &m, o);
        }
    }
    let sccs = sccs_fast(&m);
    let mut fp = Fp::new();
    fp.us(ty);
    m.fingerprint(&mut fp);
    o.fp = fp.0;
    o.nontrivial = sccs.len() >= 2 && sccs.iter().any(|c| c.len() >= 2);
    o.bump(TYPES[ty]);
    o.bump(gen::FAMILIES[fam]);
    o.bumpn("components", sccs.len());
    if o.want_desc {
        o.desc = format!("{} family={} {}", TYPES[ty], gen::FAMILIES[fam], m.describe());
    }
}
