//! C09 — Tarjan partitions the vertices into the strongly connected
//! components.

use crate::ctx::CaseOut;
use crate::gen;
use crate::model::Model;
use crate::reprs::*;
use crate::rng::{Fp, Rng};
use crate::Params;
use graaf::*;
use std::collections::BTreeSet;

pub const TYPES: [&str; 6] = ["AdjacencyList", "AdjacencyMap", "AdjacencyMatrix", "EdgeList", "AdjacencyListWeighted<usize>", "AdjacencyMap(non-contiguous)"];

pub fn check<D: OutNeighbors + Vertices>(d: &D, m: &Model, o: &mut CaseOut) {
    let mut t = Tarjan::new(d);
    let comps: Vec<BTreeSet<usize>> = t.components().clone();
    let total: usize = comps.iter().map(BTreeSet::len).sum();
    let all: BTreeSet<usize> = comps.iter().flatten().copied().collect();
    o.check(total == m.n() && all == m.verts && comps.iter().all(|c| !c.is_empty()), "not-a-partition", || format!("components {comps:?} of V {:?}", m.vert_list()));
    let got: BTreeSet<BTreeSet<usize>> = comps.iter().cloned().collect();
    let want = m.sccs();
    o.check(got == want, "components", || format!("got {got:?} want {want:?}"));
}

pub fn case(idx: u64, seed: u64, p: &Params, o: &mut CaseOut) {
    let mut r = Rng::for_case(9, seed, idx);
    let max = p.usize("max_order", 16);
    let fam = if r.chance(0.35) { 14 } else { r.below(gen::FAMILIES.len()) };
    let n = gen::small_order(&mut r, max);
    let mut m = gen::family(&mut r, fam, n);
    let ty = r.below(6);
    match ty {
        0 => check(&AdjacencyList::build(&m), &m, o),
        1 => check(&AdjacencyMap::build(&m), &m, o),
        2 => check(&AdjacencyMatrix::build(&m), &m, o),
        3 => check(&EdgeList::build(&m), &m, o),
        4 => check(&build_w_usize(&m), &m, o),
        _ => {
            m = gen::sparsify(&mut r, &m);
            check(&build_map_any(&m), &m, o);
        }
    }
    let sccs = m.sccs();
    let mut fp = Fp::new();
    fp.us(ty);
    m.fingerprint(&mut fp);
    o.fp = fp.0;
    o.nontrivial = sccs.len() >= 2 && sccs.iter().any(|c| c.len() >= 2);
    o.bump(TYPES[ty]);
    o.bump(gen::FAMILIES[fam]);
    o.bumpn("components", sccs.len());
    if o.want_desc {
        o.desc = format!("{} family={} {}", TYPES[ty], gen::FAMILIES[fam], m.describe());
    }
}
