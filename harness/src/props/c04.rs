//! C04 — breadth-first search yields exactly the reachable vertices, nearest
//! first.

use crate::ctx::CaseOut;
use crate::gen;
use crate::model::Model;
use crate::reprs::*;
use crate::rng::{Fp, Rng};
use crate::Params;
use graaf::*;
use std::collections::{BTreeMap, BTreeSet};

pub const TYPES: [&str; 5] = ["AdjacencyList", "AdjacencyMap", "AdjacencyMatrix", "EdgeList", "AdjacencyListWeighted<usize>"];

/// One abstract digraph and a set of distinct in-range sources.
pub fn gen_case(r: &mut Rng, max: usize) -> (Model, Vec<usize>, &'static str) {
    let (m, fam) = gen::algo_digraph(r, max, 257);
    let src = gen::sources(r, m.n());
    (m, src, fam)
}

pub fn check_level_seq(o: &mut CaseOut, who: &str, seq: &[usize], lv: &BTreeMap<usize, usize>) {
    let set: BTreeSet<usize> = seq.iter().copied().collect();
    o.check(set.len() == seq.len(), &format!("{who}:vertex-yielded-twice"), || format!("{seq:?}"));
    let extra: Vec<usize> = seq.iter().copied().filter(|v| !lv.contains_key(v)).collect();
    o.check(extra.is_empty(), &format!("{who}:unreachable-vertex-yielded"), || format!("{extra:?} in {seq:?}"));
    let missing: Vec<usize> = lv.keys().copied().filter(|v| !set.contains(v)).collect();
    o.check(missing.is_empty(), &format!("{who}:reachable-vertex-never-yielded"), || format!("missing {missing:?}; yielded {seq:?}"));
    let ls: Vec<usize> = seq.iter().filter_map(|v| lv.get(v).copied()).collect();
    o.check(ls.windows(2).all(|p| p[0] <= p[1]), &format!("{who}:not-nearest-first"), || format!("{seq:?} with hop distances {ls:?}"));
}

fn check_bfs<D: Order + OutNeighbors + Clone>(d: &D, other: &D, other_src: &[usize], m: &Model, src: &[usize], o: &mut CaseOut) {
    let n = m.n();
    let lv = m.levels(src);
    let cap = 4 * n + 4;
    {
        // abandoned searches must not affect later ones
        let _ = Bfs::new(d, src.iter().copied()).next();
        let _ = BfsDist::new(d, src.iter().copied()).take(2).count();
        let _ = BfsPred::new(d, src.iter().copied()).nth(1);
    }
    let mut seq = Vec::new();
    for v in Bfs::new(d, src.iter().copied()) {
        seq.push(v);
        if seq.len() > cap {
            break;
        }
    }
    check_level_seq(o, "Bfs", &seq, &lv);
    {
        let fresh = Bfs::new(d, src.iter().copied());
        let via_clone: Vec<usize> = fresh.clone().take(cap).collect();
        o.eq("Bfs:clone-of-a-fresh-iterator", &via_clone, &seq);
        let mut c = Bfs::new(other, other_src.iter().copied());
        c.clone_from(&fresh);
        let via_clone_from: Vec<usize> = c.take(cap).collect();
        o.eq("Bfs:clone_from-of-a-fresh-iterator", &via_clone_from, &seq);
    }
    let items: Vec<(usize, usize)> = BfsDist::new(d, src.iter().copied()).take(cap).collect();
    let vs: Vec<usize> = items.iter().map(|x| x.0).collect();
    check_level_seq(o, "BfsDist", &vs, &lv);
    let bad = items.iter().find(|&&(v, w)| lv.get(&v) != Some(&w));
    o.check(bad.is_none(), "BfsDist:item-distance", || format!("item {:?}, reference hop distance {:?}", bad.unwrap(), lv.get(&bad.unwrap().0)));
    if n <= 40 && m.size() % 6 == 1 {
        crate::obs::iter_consistency(o, "Bfs", || Bfs::new(d, src.iter().copied()));
        crate::obs::clone_midway(o, "Bfs", || Bfs::new(d, src.iter().copied()));
        crate::obs::iter_consistency(o, "BfsDist", || BfsDist::new(d, src.iter().copied()));
        crate::obs::clone_midway(o, "BfsDist", || BfsDist::new(d, src.iter().copied()));
    }
    let want: Vec<usize> = (0..n).map(|v| lv.get(&v).copied().unwrap_or(usize::MAX)).collect();
    o.eq("BfsDist::distances", &BfsDist::new(d, src.iter().copied()).distances(), &want);
}

/// A path of more than 2^16 vertices (plus a few arcs that don't shorten
/// it): hop distances and depths beyond 65535.
pub fn huge_path(r: &mut Rng) -> (Model, Vec<usize>, &'static str) {
    let n = *r.pick(&[65_537usize, 65_540, 66_000, 70_001]);
    let mut m = Model::new(n);
    for u in 0..n - 1 {
        m.arcs.insert((u, u + 1), 1);
    }
    for _ in 0..r.below(4) {
        let u = r.range(1, n - 1);
        let v = r.below(u);
        m.arcs.insert((u, v), 1); // backward arcs only
    }
    (m, vec![0], "huge_path")
}

pub fn is_huge_case(idx: u64, p: &Params) -> bool {
    let every = p.u64("huge_every", 150_000);
    every > 0 && idx % every == 77
}

pub fn case(idx: u64, seed: u64, p: &Params, o: &mut CaseOut) {
    let mut r = Rng::for_case(4, seed, idx);
    let huge = is_huge_case(idx, p);
    let (m, src, fam) = if huge { huge_path(&mut r) } else { gen_case(&mut r, p.usize("max_order", 20)) };
    let only = p.usize("type", usize::MAX);
    let ty = if huge { r.below(2) } else if only < 5 { only } else { r.below(6) };
    // another digraph (a circuit of the same or of another order) for the clone_from check
    let on = if huge { 3 } else if r.chance(0.6) { m.n() } else { r.range(1, 12) };
    let om = gen::family(&mut r, 4, on);
    let osrc = vec![on - 1];
    // ty == 5: all five types on the same abstract digraph
    for t in 0..5 {
        if ty != 5 && ty != t {
            continue;
        }
        match t {
            0 => check_bfs(&AdjacencyList::build(&m), &AdjacencyList::build(&om), &osrc, &m, &src, o),
            1 => check_bfs(&AdjacencyMap::build(&m), &AdjacencyMap::build(&om), &osrc, &m, &src, o),
            2 => check_bfs(&AdjacencyMatrix::build(&m), &AdjacencyMatrix::build(&om), &osrc, &m, &src, o),
            3 => check_bfs(&EdgeList::build(&m), &EdgeList::build(&om), &osrc, &m, &src, o),
            _ => check_bfs(&build_w_usize(&m), &build_w_usize(&om), &osrc, &m, &src, o),
        }
        o.bump(TYPES[t]);
    }
    let lv = m.levels(&src);
    let levels = lv.values().copied().max().map_or(0, |x| x + 1);
    let mut fp = Fp::new();
    fp.us(ty);
    m.fingerprint(&mut fp);
    for &s in &src {
        fp.us(s);
    }
    o.fp = fp.0;
    o.nontrivial = levels >= 2 && (lv.len() < m.n() || src.len() >= 2);
    o.bump(fam);
    o.bumpn("sources", src.len());
    o.bumpn("levels", levels);
    if o.want_desc {
        o.desc = format!("types={} family={fam} {} sources={src:?}", if ty == 5 { "all five".to_string() } else { TYPES[ty].to_string() }, m.describe());
    }
}
