//! C20 — equality, ordering, hashing and cloning respect the abstract digraph.

use crate::ctx::CaseOut;
use crate::gen;
use crate::model::Model;
use crate::obs::{observe, observe_w};
use crate::reprs::*;
use crate::rng::{Fp, Rng};
use crate::Params;
use graaf::*;
use std::cmp::Ordering;
use std::collections::hash_map::DefaultHasher;
use std::hash::{Hash, Hasher};

/// FNV-1a over the byte stream: insensitive to how the bytes are chunked into
/// `write` calls, and with no per-process key.
struct Fnv(u64);
impl Hasher for Fnv {
    fn write(&mut self, bytes: &[u8]) {
        for &b in bytes {
            self.0 = (self.0 ^ u64::from(b)).wrapping_mul(0x0000_0100_0000_01b3);
        }
    }
    fn finish(&self) -> u64 {
        self.0
    }
}

/// A hasher that also mixes in where each `write` call begins and ends: a
/// legitimate `Hasher` (the contract `a == b => hash(a) == hash(b)` is stated
/// for every hasher), so equal digraphs have to feed it the same calls.
struct Chunked(u64);
impl Hasher for Chunked {
    fn write(&mut self, bytes: &[u8]) {
        self.0 = self.0.rotate_left(7) ^ 0x9e37_79b9_7f4a_7c15 ^ bytes.len() as u64;
        for &b in bytes {
            self.0 = (self.0.rotate_left(5) ^ u64::from(b)).wrapping_mul(0x2545_f491_4f6c_dd1d);
        }
    }
    fn finish(&self) -> u64 {
        self.0
    }
}

fn h<T: Hash>(x: &T) -> [u64; 3] {
    let mut s = DefaultHasher::new();
    x.hash(&mut s);
    let mut f = Fnv(0xcbf2_9ce4_8422_2325);
    x.hash(&mut f);
    let mut c = Chunked(1);
    x.hash(&mut c);
    [s.finish(), f.finish(), c.finish()]
}

fn same<T: Eq + Ord + Hash>(o: &mut CaseOut, a: &T, b: &T, what: &str) {
    o.check(a == b && b == a, &format!("{what}:equal-models-compare-unequal"), String::new);
    o.check(a.cmp(b) == Ordering::Equal && b.cmp(a) == Ordering::Equal && a.partial_cmp(b) == Some(Ordering::Equal), &format!("{what}:equal-models-not-Ordering::Equal"), String::new);
    o.check(h(a) == h(b), &format!("{what}:equal-models-hash-differently"), String::new);
    #[allow(clippy::nonminimal_bool)]
    let ops_ok = !(a != b) && !(a < b) && !(a > b) && a <= b && a >= b;
    o.check(ops_ok, &format!("{what}:equal-models-but-ne/lt/gt/le/ge-disagree"), String::new);
}

fn differ<T: Eq + Ord + Hash>(o: &mut CaseOut, a: &T, b: &T, what: &str) {
    o.check(a != b && b != a, &format!("{what}:different-models-compare-equal"), String::new);
    o.check(a.cmp(b) != Ordering::Equal && a.cmp(b) == b.cmp(a).reverse(), &format!("{what}:cmp-inconsistent-with-eq"), String::new);
    let less = a.cmp(b) == Ordering::Less;
    #[allow(clippy::nonminimal_bool)]
    let ops_ok = !(a == b) && (a < b) == less && (a <= b) == less && (a > b) != less && (a >= b) != less && a.partial_cmp(b) == Some(a.cmp(b));
    o.check(ops_ok, &format!("{what}:eq/lt/le/gt/ge/partial_cmp-inconsistent-with-cmp"), String::new);
}

/// Build `m` by a detour-laden history: permuted adds, add + remove of arcs
/// that are not in m, re-adds.
fn detour<D: Unweighted>(r: &mut Rng, m: &Model) -> (D, usize) {
    let n = m.n();
    let mut d = D::empty(n);
    let mut arcs = m.arc_list();
    r.shuffle(&mut arcs);
    let mut steps = 0;
    for &(u, v) in &arcs {
        if r.chance(0.3) && n >= 2 {
            // detour: add and remove an arc that is not in m
            let a = r.below(n);
            let b = (a + 1 + r.below(n - 1)) % n;
            if !m.has(a, b) {
                d.add_arc(a, b);
                let _ = d.remove_arc(a, b);
                steps += 2;
            }
        }
        d.add_arc(u, v);
        steps += 1;
        if r.chance(0.25) {
            // operations that are documented no-ops: removing an arc that is
            // absent, or one with an endpoint outside V (remove_arc is total)
            let a = r.below(n);
            let far = *r.pick(&[n, n + 1, 2 * n, n * n, n * n + 1, 64, 1 << 20, usize::MAX]);
            let near = n + r.below(n * n + 1);
            let (x, y) = match r.below(5) {
                0 => (a, far),
                1 => (far, a),
                2 => (a, near),
                3 => (near, a),
                _ => {
                    let b = r.below(n);
                    if m.has(a, b) || a == b { (far, near) } else { (a, b) }
                }
            };
            if !d.has_arc(x, y) {
                let _ = d.remove_arc(x, y);
                steps += 1;
            }
        }
        if r.chance(0.2) {
            d.add_arc(u, v);
            steps += 1;
        }
        if r.chance(0.1) {
            let _ = d.remove_arc(u, v);
            d.add_arc(u, v);
            steps += 2;
        }
    }
    (d, steps)
}

fn unweighted<D>(r: &mut Rng, m: &Model, o: &mut CaseOut, p_big: bool) -> bool
where
    D: Unweighted + From<AdjacencyList> + Complete + Circuit + Empty + Complement + Converse + Union,
    AdjacencyList: From<D>,
{
    let name = D::NAME;
    let n = m.n();
    let a = D::build_classic(m);
    let (b, steps) = detour::<D>(r, m);
    same(o, &a, &D::build(m), &format!("{name}(model-dependent construction route)"));
    same(o, &a, &b, &format!("{name}(detour history)"));
    same(o, &a, &D::build_alt(m), &format!("{name}(From<iter>)"));
    // conversion round trip
    let rt = D::from(AdjacencyList::from(a.clone()));
    same(o, &a, &rt, &format!("{name}(conversion round trip)"));
    // generator vs manual construction
    let mut rr = Rng(0);
    same(o, &D::complete(n), &D::build(&gen::family(&mut rr, 2, n)), &format!("{name}(complete vs add_arc)"));
    same(o, &D::circuit(n), &D::build(&gen::family(&mut rr, 4, n)), &format!("{name}(circuit vs add_arc)"));
    // digraphs produced by operations are equal to the same digraphs built arc by arc
    if r.below(4) == 0 {
        same(o, &a.complement(), &D::build(&m.complement()), &format!("{name}(complement vs add_arc)"));
        same(o, &a.converse(), &D::build(&m.converse()), &format!("{name}(converse vs add_arc)"));
        same(o, &a.complement().complement(), &a, &format!("{name}(complement twice)"));
        same(o, &a.converse().converse(), &a, &format!("{name}(converse twice)"));
        same(o, &a.union(&b), &a, &format!("{name}(union with an equal digraph)"));
        same(o, &D::empty(n).complement(), &D::complete(n), &format!("{name}(empty.complement vs complete)"));
        same(o, &a.union(&a.complement()), &D::complete(n), &format!("{name}(D union complement(D) vs complete)"));
    }
    // minimal differences
    if n >= 2 {
        let u = r.below(n);
        let v = (u + 1 + r.below(n - 1)) % n;
        let mut m2 = m.clone();
        if !m2.remove(u, v) {
            m2.add(u, v, 1);
        }
        differ(o, &a, &D::build(&m2), &format!("{name}(one arc flipped)"));
    }
    let mut m3 = m.clone();
    m3.verts.insert(n);
    differ(o, &a, &D::build(&m3), &format!("{name}(order + 1, same arcs)"));
    {
        // same order and same size, one arc moved elsewhere
        let mut m4 = m.clone();
        let tail = r.chance(0.5);
        gen::move_endpoint(r, &mut m4, tail);
        if m4 != *m {
            differ(o, &a, &D::build(&m4), &format!("{name}(one arc moved, same order and size)"));
        }
    }
    // clone_from into an existing digraph of another order / arc set
    {
        let n2 = match r.below(3) {
            0 => n + 1 + r.below(3),
            1 => (n / 2).max(1),
            _ => n,
        };
        let dens = *r.pick(&[0.0, 0.5, 1.0]);
        let other = gen::random_arcs(r, n2, dens);
        let mut x = D::build(&other);
        x.clone_from(&a);
        same(o, &a, &x, &format!("{name}(clone_from into order {n2})"));
        observe(&x, m, o, &format!("{name}:clone_from-result"), !p_big);
        let mut y = a.clone();
        y.clone_from(&D::build(&other));
        observe(&y, &other, o, &format!("{name}:clone_from-result(rev)"), !p_big);
        observe(&a, m, o, &format!("{name}:original-after-clone_from"), false);
    }
    // clone: equal and independent
    let mut c = a.clone();
    same(o, &a, &c, &format!("{name}(clone)"));
    if n >= 2 {
        let u = r.below(n);
        let v = (u + 1 + r.below(n - 1)) % n;
        let mut mc = m.clone();
        if m.has(u, v) {
            let _ = c.remove_arc(u, v);
            mc.remove(u, v);
        } else {
            c.add_arc(u, v);
            mc.add(u, v, 1);
        }
        observe(&a, m, o, &format!("{name}:original-after-mutating-clone"), !p_big);
        observe(&c, &mc, o, &format!("{name}:clone-after-mutation"), !p_big);
        differ(o, &a, &c, &format!("{name}(clone mutated)"));
        // mutate the original back towards the clone: they meet again
        let mut a2 = a.clone();
        if m.has(u, v) {
            let _ = a2.remove_arc(u, v);
        } else {
            a2.add_arc(u, v);
        }
        same(o, &a2, &c, &format!("{name}(both mutated the same way)"));
        observe(&a, m, o, &format!("{name}:original-after-mutating-second-clone"), false);
    }
    steps != m.size()
}

/// Clones of digraphs with several thousand vertices (a clone that splits its
/// work needs more rows than any reasonable threshold).
fn huge_clone(r: &mut Rng, o: &mut CaseOut) {
    let n = *r.pick(&[4097usize, 5000, 8191, 10_001]);
    let mut m = gen::family(r, 4, n);
    for _ in 0..r.below(5) {
        let (u, v) = (r.below(n), r.below(n));
        if u != v {
            m.add(u, v, 1);
        }
    }
    let al = AdjacencyList::build(&m);
    let c = al.clone();
    same(o, &al, &c, "AdjacencyList(clone, several thousand vertices)");
    observe(&c, &m, o, "AdjacencyList:clone-of-a-big-digraph", false);
    let mut x = AdjacencyList::empty(3);
    x.clone_from(&al);
    same(o, &al, &x, "AdjacencyList(clone_from, several thousand vertices)");
    let am = AdjacencyMap::build(&m);
    same(o, &am, &am.clone(), "AdjacencyMap(clone, several thousand vertices)");
    observe(&am.clone(), &m, o, "AdjacencyMap:clone-of-a-big-digraph", false);
    let el = EdgeList::build(&m);
    same(o, &el, &el.clone(), "EdgeList(clone, several thousand vertices)");
    observe(&el.clone(), &m, o, "EdgeList:clone-of-a-big-digraph", false);
    let wu = build_w_usize(&m);
    same(o, &wu, &wu.clone(), "AdjacencyListWeighted(clone, several thousand vertices)");
    observe(&wu.clone(), &m, o, "AdjacencyListWeighted:clone-of-a-big-digraph", false);
    o.fp = Fp::new().s("huge_clone").us(n).0;
    o.nontrivial = true;
    o.bump("huge_clone");
    if o.want_desc {
        o.desc = format!("clone / clone_from of a circuit of order {n} plus a few arcs in four types");
    }
}

pub fn case(idx: u64, seed: u64, p: &Params, o: &mut CaseOut) {
    let mut r = Rng::for_case(20, seed, idx);
    let every = p.u64("huge_every", 20_000);
    if every > 0 && idx % every == 333 {
        huge_clone(&mut r, o);
        return;
    }
    let max = p.usize("max_order", 40);
    let fam = r.below(gen::FAMILIES.len());
    let n = match r.below(10) {
        0..=6 => gen::algo_order(&mut r, max.min(9), 130),
        7 => *r.pick(&[8usize, 9, 16, 17, 31, 32, 33]).min(&max),
        _ => r.range(1, max),
    };
    let fam = if n > max { gen::sparse_family(&mut r) } else { fam };
    let mut m = gen::family(&mut r, fam, n);
    let ty = if n > max { r.below(6) } else { r.below(7) };
    let big = n > 20;
    let name;
    let nt = match ty {
        0 => {
            name = "AdjacencyList";
            unweighted::<AdjacencyList>(&mut r, &m, o, big)
        }
        1 => {
            name = "AdjacencyMap";
            let nt = unweighted::<AdjacencyMap>(&mut r, &m, o, big);
            // an extra isolated vertex with a sparse id makes a different digraph
            let a = build_map_any(&m);
            let mut m2 = m.clone();
            m2.verts.insert(n + 1 + r.below(100));
            differ(o, &a, &build_map_any(&m2), "AdjacencyMap(extra isolated vertex)");
            // same order, same arcs, but isolated vertices with different ids
            let (i1, i2) = (n + 1 + r.below(50), n + 60 + r.below(50));
            let (mut x1, mut x2) = (m.clone(), m.clone());
            x1.verts.insert(i1);
            x2.verts.insert(i2);
            differ(o, &build_map_any(&x1), &build_map_any(&x2), "AdjacencyMap(isolated vertices with different ids)");
            let mut x3 = x1.clone();
            x3.verts.insert(i2);
            let f1 = build_map_any(&x3).filter_vertices(|v| v != i1);
            let f2 = build_map_any(&x3).filter_vertices(|v| v != i2);
            differ(o, &f1, &f2, "AdjacencyMap(filter_vertices dropping different isolated vertices)");
            same(o, &f1, &build_map_any(&x2), "AdjacencyMap(filter_vertices vs direct construction)");
            // two histories to the same sparse digraph
            let s = gen::sparsify(&mut r, &m);
            let x = build_map_any(&s);
            let mut y = AdjacencyMap::empty(1);
            let mut arcs = s.arc_list();
            r.shuffle(&mut arcs);
            let mut vs = s.vert_list();
            r.shuffle(&mut vs);
            for &v in &vs {
                if v != 0 {
                    y.add_arc(v, 0);
                    let _ = y.remove_arc(v, 0);
                }
            }
            for &(u, v) in &arcs {
                y.add_arc(u, v);
            }
            if !s.verts.contains(&0) {
                y = y.filter_vertices(|v| v != 0);
            }
            same(o, &x, &y, "AdjacencyMap(two histories, sparse ids)");
            // results of operations on sparse maps (sometimes with the largest
            // legal id) against the same digraph built arc by arc
            if r.below(3) == 0 && s.n() <= 24 {
                let s2 = if r.chance(0.4) { gen::with_max_id(&s) } else { s.clone() };
                let d = build_map_any(&s2);
                same(o, &d.complement(), &build_map_any(&s2.complement()), "AdjacencyMap(sparse: complement vs add_arc)");
                same(o, &d.converse(), &build_map_any(&s2.converse()), "AdjacencyMap(sparse: converse vs add_arc)");
                same(o, &d.complement().complement(), &d, "AdjacencyMap(sparse: complement twice)");
                same(o, &d.union(&build_map_any(&s)), &build_map_any(&s2.union(&s)), "AdjacencyMap(sparse: union vs add_arc)");
            }
            nt
        }
        2 => {
            name = "AdjacencyMatrix";
            let nt = unweighted::<AdjacencyMatrix>(&mut r, &m, o, big);
            // double toggle is the identity; toggling builds the same digraph as add_arc
            let a = AdjacencyMatrix::build(&m);
            let mut t = AdjacencyMatrix::empty(n);
            for &(u, v) in m.arcs.keys() {
                t.toggle(u, v);
            }
            if n >= 2 {
                let u = r.below(n);
                let v = (u + 1 + r.below(n - 1)) % n;
                t.toggle(u, v);
                t.toggle(u, v);
            }
            same(o, &a, &t, "AdjacencyMatrix(toggle history)");
            nt
        }
        3 => {
            name = "EdgeList";
            unweighted::<EdgeList>(&mut r, &m, o, big)
        }
        4 | 5 => {
            name = if ty == 4 { "AdjacencyListWeighted<usize>" } else { "AdjacencyListWeighted<isize>" };
            gen::weights(&mut r, &mut m, if ty == 4 { gen::WClass::Small } else { gen::WClass::MixedNeg });
            macro_rules! weighted {
                ($build:ident, $alt:ident, $W:ty) => {{
                    let a = $build(&m);
                    let b = $alt(&m);
                    same(o, &a, &b, &format!("{name}(From<iter>)"));
                    // history with overwritten weights
                    let mut c = AdjacencyListWeighted::<$W>::empty(n);
                    let mut arcs = m.arc_list_w();
                    r.shuffle(&mut arcs);
                    for &(u, v, w) in &arcs {
                        if r.chance(0.4) {
                            c.add_arc_weighted(u, v, (w + 1) as $W);
                        }
                        c.add_arc_weighted(u, v, w as $W);
                    }
                    same(o, &a, &c, &format!("{name}(weights overwritten)"));
                    if let Some(&(u, v, w)) = arcs.first() {
                        let mut d = a.clone();
                        d.add_arc_weighted(u, v, (w + 1) as $W);
                        differ(o, &a, &d, &format!("{name}(one weight differs)"));
                        let mut mc = m.clone();
                        mc.add(u, v, w + 1);
                        observe_w(&a, &m, o, &format!("{name}:original-after-mutating-clone"), |x| *x as i64);
                        observe_w(&d, &mc, o, &format!("{name}:clone-after-mutation"), |x| *x as i64);
                        let mut e = a.clone();
                        let _ = e.remove_arc(u, v);
                        differ(o, &a, &e, &format!("{name}(one arc removed)"));
                        observe(&a, &m, o, &format!("{name}:original-after-removing-from-clone"), !big);
                    }
                    let mut m3 = m.clone();
                    m3.verts.insert(n);
                    differ(o, &a, &$build(&m3), &format!("{name}(order + 1, same arcs)"));
                    let mut x = $build(&m3);
                    x.clone_from(&a);
                    same(o, &a, &x, &format!("{name}(clone_from)"));
                    observe_w(&x, &m, o, &format!("{name}:clone_from-result"), |x| *x as i64);
                }};
            }
            if ty == 4 {
                weighted!(build_w_usize, build_w_usize_alt, usize);
            } else {
                weighted!(build_w_isize, build_w_isize_alt, isize);
            }
            m.size() > 0
        }
        _ => {
            // is_complete is implemented as == complete(order) for matrix and edge list
            name = "is_complete-via-eq";
            let full = gen::family(&mut Rng(0), 2, n);
            let mut d = AdjacencyMatrix::empty(n);
            let mut e = EdgeList::empty(n);
            let mut arcs = full.arc_list();
            r.shuffle(&mut arcs);
            for &(u, v) in &arcs {
                d.add_arc(u, v);
                e.add_arc(u, v);
            }
            o.check(d.is_complete() && e.is_complete(), "is_complete-after-add-history", String::new);
            if let Some(&(u, v)) = arcs.first() {
                let _ = d.remove_arc(u, v);
                let _ = e.remove_arc(u, v);
                o.check(!d.is_complete() && !e.is_complete(), "is_complete-after-remove", String::new);
                d.add_arc(u, v);
                e.add_arc(u, v);
                o.check(d.is_complete() && e.is_complete(), "is_complete-after-re-add", String::new);
                same(o, &d, &AdjacencyMatrix::complete(n), "AdjacencyMatrix(remove + re-add vs complete)");
                same(o, &e, &EdgeList::complete(n), "EdgeList(remove + re-add vs complete)");
            }
            n >= 2
        }
    };
    let mut fp = Fp::new();
    fp.us(ty);
    m.fingerprint(&mut fp);
    o.fp = fp.0;
    o.nontrivial = nt;
    o.bump(name);
    o.bump(gen::FAMILIES[fam]);
    if o.want_desc {
        o.desc = format!("{name} family={} {}", gen::FAMILIES[fam], m.describe());
    }
}
