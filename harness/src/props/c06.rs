//! C06 — depth-first search visits exactly the reachable set in a
//! depth-first preorder.

use crate::ctx::CaseOut;
use crate::model::Model;
use crate::props::c04;
use crate::reprs::*;
use crate::rng::{Fp, Rng};
use crate::Params;
use graaf::*;
use std::collections::BTreeSet;

pub const SIG: &str = "dfs-truncated-at-first-stale-pop";

/// (predecessor, vertex, depth)
type Item = (Option<usize>, usize, usize);

/// Online validity checker for a depth-first preorder (any neighbour order).
/// Returns Err(reason) at the first rule that is broken.
pub fn valid_preorder(m: &Model, src: &[usize], seq: &[Item], check_pred: bool, check_depth: bool) -> Result<(), String> {
    let mut yielded: BTreeSet<usize> = BTreeSet::new();
    let mut path: Vec<(usize, usize)> = Vec::new(); // (vertex, depth)
    for (k, &(p, x, dep)) in seq.iter().enumerate() {
        while let Some(&(t, _)) = path.last() {
            if m.out(t).iter().any(|v| !yielded.contains(v)) {
                break;
            }
            path.pop();
        }
        if yielded.contains(&x) {
            return Err(format!("item {k}: vertex {x} yielded twice"));
        }
        match path.last() {
            None => {
                if !src.contains(&x) {
                    return Err(format!("item {k}: {x} starts a new tree but is not a source"));
                }
                if check_pred && p.is_some() {
                    return Err(format!("item {k}: root {x} reported with predecessor {p:?}"));
                }
                if check_depth && dep != 0 {
                    return Err(format!("item {k}: root {x} reported at depth {dep}"));
                }
                path.push((x, 0));
            }
            Some(&(t, td)) => {
                if !m.has(t, x) {
                    return Err(format!(
                        "item {k}: {x} is not an out-neighbour of {t}, the deepest vertex on the search path with an unyielded out-neighbour"
                    ));
                }
                if check_pred && p != Some(t) {
                    return Err(format!("item {k}: vertex {x} reported with predecessor {p:?}, search path top is {t}"));
                }
                if check_depth && dep != td + 1 {
                    return Err(format!("item {k}: vertex {x} reported at depth {dep}, its parent {t} is at depth {td}"));
                }
                path.push((x, td + 1));
            }
        }
        yielded.insert(x);
    }
    let reach = m.reach(src);
    if yielded != reach {
        let missing: Vec<usize> = reach.difference(&yielded).copied().collect();
        return Err(format!("reachable vertices never yielded: {missing:?}"));
    }
    Ok(())
}

/// The intended stack algorithm (sources pushed in order; pop; skip if
/// visited; mark; push unvisited out-neighbours ascending). Returns the full
/// sequence and the position of the first stale pop that happens while the
/// stack still holds entries (None if there is no such pop), i.e. where the
/// pinned implementation stops.
pub fn intended(m: &Model, src: &[usize]) -> (Vec<Item>, Option<usize>) {
    let mut stack: Vec<Item> = src.iter().map(|&s| (None, s, 0)).collect();
    let mut visited: BTreeSet<usize> = BTreeSet::new();
    let mut seq = Vec::new();
    let mut first_stale: Option<usize> = None;
    while let Some((p, v, d)) = stack.pop() {
        if visited.contains(&v) {
            if first_stale.is_none() {
                first_stale = Some(seq.len());
            }
            continue;
        }
        visited.insert(v);
        for x in m.out(v) {
            if !visited.contains(&x) {
                stack.push((Some(v), x, d + 1));
            }
        }
        seq.push((p, v, d));
    }
    // a stale pop after the last real item truncates nothing
    if first_stale == Some(seq.len()) {
        first_stale = None;
    }
    (seq, first_stale)
}

fn classify(o: &mut CaseOut, who: &str, obs: &[Item], m: &Model, src: &[usize], check_pred: bool, check_depth: bool, full: &[Item], cut: Option<usize>) {
    o.comparisons += 1;
    match valid_preorder(m, src, obs, check_pred, check_depth) {
        Ok(()) => {}
        Err(why) => {
            let proj = |s: &[Item]| -> Vec<Item> {
                s.iter()
                    .map(|&(p, v, d)| (if check_pred { p } else { None }, v, if check_depth { d } else { 0 }))
                    .collect()
            };
            if let Some(c) = cut {
                if proj(obs) == proj(&full[..c]) {
                    o.known.push((
                        format!("{SIG} iterator={who}"),
                        format!("{who} stops after {c} of {} items at the first already-visited stack entry: {why}", full.len()),
                    ));
                    return;
                }
            }
            o.viol(&format!("{who}:not-a-depth-first-preorder-of-the-reachable-set"), crate::ctx::clip(&format!("{why}; observed {obs:?}")));
        }
    }
}

fn check_dfs<D: Order + OutNeighbors + Clone>(d: &D, other: &D, other_src: &[usize], m: &Model, src: &[usize], o: &mut CaseOut) {
    let n = m.n();
    let cap = 4 * n + 4;
    {
        // abandoned searches must not affect later ones
        let _ = Dfs::new(d, src.iter().copied()).next();
        let _ = DfsDist::new(d, src.iter().copied()).take(2).count();
        let _ = DfsPred::new(d, src.iter().copied()).nth(1);
    }
    let (full, cut) = intended(m, src);
    let a: Vec<Item> = Dfs::new(d, src.iter().copied()).take(cap).map(|v| (None, v, 0)).collect();
    classify(o, "Dfs", &a, m, src, false, false, &full, cut);
    let b: Vec<Item> = DfsDist::new(d, src.iter().copied()).take(cap).map(|(v, w)| (None, v, w)).collect();
    classify(o, "DfsDist", &b, m, src, false, true, &full, cut);
    let c: Vec<Item> = DfsPred::new(d, src.iter().copied()).take(cap).map(|(p, v)| (p, v, 0)).collect();
    classify(o, "DfsPred", &c, m, src, true, false, &full, cut);
    // clone_from: the destination was built over ANOTHER digraph
    {
        let mut x = Dfs::new(other, other_src.iter().copied());
        x.clone_from(&Dfs::new(d, src.iter().copied()));
        let mut y = DfsDist::new(other, other_src.iter().copied());
        y.clone_from(&DfsDist::new(d, src.iter().copied()));
        let mut z = DfsPred::new(other, other_src.iter().copied());
        z.clone_from(&DfsPred::new(d, src.iter().copied()));
        let xa: Vec<usize> = x.take(cap).collect();
        let ya: Vec<(usize, usize)> = y.take(cap).collect();
        let za: Vec<(Option<usize>, usize)> = z.take(cap).collect();
        o.check(
            xa == a.iter().map(|x| x.1).collect::<Vec<_>>()
                && ya == b.iter().map(|x| (x.1, x.2)).collect::<Vec<_>>()
                && za == c.iter().map(|x| (x.0, x.1)).collect::<Vec<_>>(),
            "clone_from-of-a-fresh-Dfs-iterator-differs",
            || format!("Dfs {xa:?} DfsDist {ya:?} DfsPred {za:?}"),
        );
    }
    // a clone of a fresh iterator is the same iterator
    let a2: Vec<usize> = Dfs::new(d, src.iter().copied()).clone().take(cap).collect();
    let b2: Vec<(usize, usize)> = DfsDist::new(d, src.iter().copied()).clone().take(cap).collect();
    let c2: Vec<(Option<usize>, usize)> = DfsPred::new(d, src.iter().copied()).clone().take(cap).collect();
    o.check(
        a2 == a.iter().map(|x| x.1).collect::<Vec<_>>()
            && b2 == b.iter().map(|x| (x.1, x.2)).collect::<Vec<_>>()
            && c2 == c.iter().map(|x| (x.0, x.1)).collect::<Vec<_>>(),
        "clone-of-a-fresh-Dfs-iterator-differs",
        || format!("Dfs {a2:?} DfsDist {b2:?} DfsPred {c2:?}"),
    );
    if n <= 24 && src.len() == 1 && m.size() % 6 == 1 {
        crate::obs::iter_consistency(o, "Dfs", || Dfs::new(d, src.iter().copied()));
        crate::obs::clone_midway(o, "Dfs", || Dfs::new(d, src.iter().copied()));
        crate::obs::iter_consistency(o, "DfsDist", || DfsDist::new(d, src.iter().copied()));
        crate::obs::clone_midway(o, "DfsDist", || DfsDist::new(d, src.iter().copied()));
        crate::obs::iter_consistency(o, "DfsPred", || DfsPred::new(d, src.iter().copied()));
        crate::obs::clone_midway(o, "DfsPred", || DfsPred::new(d, src.iter().copied()));
    }
    // Each iterator is judged on its own sequence above. The statement does
    // not ask the three to pick the same preorder among the valid ones, so a
    // disagreement is recorded for the evidence and not judged.
    let va: Vec<usize> = a.iter().map(|x| x.1).collect();
    let vb: Vec<usize> = b.iter().map(|x| x.1).collect();
    let vc: Vec<usize> = c.iter().map(|x| x.1).collect();
    if !(va == vb && vb == vc) {
        o.bump("note: Dfs, DfsDist and DfsPred chose different preorders");
    }
    // predecessors() is the forest of the DfsPred sequence
    let tree = DfsPred::new(d, src.iter().copied()).predecessors();
    let mut want = vec![None; n];
    for &(p, v, _) in &c {
        if v < n {
            want[v] = p;
        }
    }
    o.eq("DfsPred::predecessors-vs-items", &tree.pred, &want);
    // and, independently of the items, the forest of a valid preorder
    let mut forest = vec![None; n];
    let (fullseq, _) = (&full, ());
    for &(p, v, _) in fullseq.iter() {
        forest[v] = p;
    }
    if tree.pred != forest {
        // judge the tree on its own: every reachable non-root has a
        // predecessor that is an in-neighbour; roots are sources
        let reach = m.reach(src);
        let mut why = None;
        for v in 0..n {
            match tree.pred[v] {
                Some(u) => {
                    if !m.has(u, v) || !reach.contains(&v) {
                        why = Some(format!("pred[{v}] = {u} is not an arc into a reachable vertex"));
                    }
                }
                None => {
                    if reach.contains(&v) && !src.contains(&v) {
                        why = Some(format!("reachable non-source vertex {v} has no predecessor"));
                    }
                }
            }
        }
        o.comparisons += 1;
        if let Some(w) = why {
            let mut trunc_forest = vec![None; n];
            if let Some(cu) = cut {
                for &(p, v, _) in &full[..cu] {
                    trunc_forest[v] = p;
                }
            }
            if cut.is_some() && tree.pred == trunc_forest {
                o.known.push((format!("{SIG} iterator=DfsPred::predecessors"), format!("forest of the truncated sequence: {w}")));
            } else {
                o.viol("DfsPred::predecessors:not-the-search-forest", format!("{w}; tree {:?}", tree.pred));
            }
        }
    }
}

pub fn case(idx: u64, seed: u64, p: &Params, o: &mut CaseOut) {
    let mut r = Rng::for_case(6, seed, idx);
    let huge = c04::is_huge_case(idx, p);
    let (m, src, fam) = if huge { c04::huge_path(&mut r) } else { c04::gen_case(&mut r, p.usize("max_order", 20)) };
    let ty = if huge { r.below(2) } else { r.below(5) };
    let on = if huge { 3 } else if r.chance(0.6) { m.n() } else { r.range(1, 12) };
    let om = crate::gen::family(&mut r, 4, on);
    let osrc = vec![on - 1];
    match ty {
        0 => check_dfs(&AdjacencyList::build(&m), &AdjacencyList::build(&om), &osrc, &m, &src, o),
        1 => check_dfs(&AdjacencyMap::build(&m), &AdjacencyMap::build(&om), &osrc, &m, &src, o),
        2 => check_dfs(&AdjacencyMatrix::build(&m), &AdjacencyMatrix::build(&om), &osrc, &m, &src, o),
        3 => check_dfs(&EdgeList::build(&m), &EdgeList::build(&om), &osrc, &m, &src, o),
        _ => check_dfs(&build_w_usize(&m), &build_w_usize(&om), &osrc, &m, &src, o),
    }
    let (full, cut) = intended(&m, &src);
    let mut fp = Fp::new();
    fp.us(ty);
    m.fingerprint(&mut fp);
    for &s in &src {
        fp.us(s);
    }
    o.fp = fp.0;
    o.nontrivial = cut.is_some();
    o.bump(c04::TYPES[ty]);
    o.bump(fam);
    if cut.is_some() {
        o.bump("stale_pop_with_pending_entries");
    }
    o.bumpn("reachable/4", full.len() / 4);
    if o.want_desc {
        o.desc = format!("{} family={fam} {} sources={src:?}", c04::TYPES[ty], m.describe());
    }
}
