//! C05 — predecessor trees and shortest paths from BFS and Dijkstra are valid
//! and optimal; BfsPred::cycles() returns elementary cycles only.

use crate::ctx::CaseOut;
use crate::model::Model;
use crate::props::{c03, c04};
use crate::reprs::*;
use crate::rng::{Fp, Rng};
use crate::Params;
use graaf::*;
use std::collections::{BTreeMap, BTreeSet};

/// dist: reference distance of every reachable vertex (hops or weight).
fn check_tree(o: &mut CaseOut, who: &str, pred: &[Option<usize>], m: &Model, src: &[usize], dist: &BTreeMap<usize, i64>) {
    o.eq(&format!("{who}:tree-length"), &pred.len(), &m.n());
    for (v, &p) in pred.iter().enumerate() {
        let reachable = dist.contains_key(&v);
        let is_src = src.contains(&v);
        match p {
            None => {
                o.check(is_src || !reachable, &format!("{who}:reachable-vertex-without-predecessor"), || format!("vertex {v}, tree {pred:?}"));
            }
            Some(u) => {
                o.check(!is_src, &format!("{who}:source-with-predecessor"), || format!("source {v} has predecessor {u}"));
                o.check(reachable, &format!("{who}:unreachable-vertex-with-predecessor"), || format!("vertex {v} has predecessor {u}"));
                let ok = m.w(u, v).is_some_and(|w| dist.get(&u).is_some_and(|&du| dist.get(&v) == Some(&(du + w))));
                o.check(ok, &format!("{who}:predecessor-not-on-a-shortest-path"), || {
                    format!("pred[{v}] = {u}: arc weight {:?}, dist(u) {:?}, dist(v) {:?}", m.w(u, v), dist.get(&u), dist.get(&v))
                });
            }
        }
    }
}

fn check_path(o: &mut CaseOut, who: &str, got: &Option<Vec<usize>>, m: &Model, src: &[usize], dist: &BTreeMap<usize, i64>, targets: &BTreeSet<usize>) {
    let best: Option<i64> = targets.iter().filter_map(|t| dist.get(t).copied()).min();
    match (got, best) {
        (None, None) => {
            o.comparisons += 1;
        }
        (None, Some(b)) => {
            o.check(false, &format!("{who}:None-although-a-target-is-reachable"), || format!("targets {targets:?}, nearest at distance {b}"));
        }
        (Some(pth), None) => {
            o.check(false, &format!("{who}:Some-although-no-target-is-reachable"), || format!("path {pth:?}, targets {targets:?}"));
        }
        (Some(pth), Some(b)) => {
            let ok_ends = !pth.is_empty() && src.contains(&pth[0]) && targets.contains(pth.last().unwrap());
            o.check(ok_ends, &format!("{who}:path-endpoints"), || format!("path {pth:?} sources {src:?} targets {targets:?}"));
            let arcs_ok = pth.windows(2).all(|p| m.has(p[0], p[1]));
            o.check(arcs_ok, &format!("{who}:path-not-a-walk"), || format!("path {pth:?}"));
            if arcs_ok {
                let w: i64 = pth.windows(2).map(|p| m.w(p[0], p[1]).unwrap()).sum();
                o.check(w == b, &format!("{who}:path-not-optimal"), || format!("path {pth:?} has length/weight {w}, minimum over all targets is {b}"));
            }
        }
    }
}

fn predicates(r: &mut Rng, n: usize, src: &[usize], dist: &BTreeMap<usize, i64>) -> Vec<BTreeSet<usize>> {
    let mut ps: Vec<BTreeSet<usize>> = Vec::new();
    ps.push(BTreeSet::new()); // none
    ps.push((0..n).collect()); // all
    ps.push([r.below(n)].into_iter().collect()); // single
    ps.push((0..n).filter(|_| r.chance(0.3)).collect()); // random subset
    ps.push((0..n).filter(|v| !dist.contains_key(v)).collect()); // only unreachable
    if let Some(&s) = src.first() {
        let mut t: BTreeSet<usize> = (0..n).filter(|_| r.chance(0.2)).collect();
        t.insert(s);
        ps.push(t); // contains a source
    }
    // competing targets at different distances
    let reach: Vec<usize> = dist.keys().copied().collect();
    if reach.len() >= 2 {
        let mut t = BTreeSet::new();
        for _ in 0..r.range(2, 3) {
            t.insert(*r.pick(&reach));
        }
        // drop the sources so that the answer is not trivially a source
        let t2: BTreeSet<usize> = t.iter().copied().filter(|v| !src.contains(v)).collect();
        ps.push(if t2.is_empty() { t } else { t2 });
        // the farthest vertex alone
        let far = *reach.iter().max_by_key(|v| dist[v]).unwrap();
        ps.push([far].into_iter().collect());
    }
    ps
}

fn check_cycles(o: &mut CaseOut, cycles: &[Vec<usize>], m: &Model) {
    for c in cycles {
        let distinct: BTreeSet<usize> = c.iter().copied().collect();
        let ok = c.len() >= 2
            && distinct.len() == c.len()
            && c.windows(2).all(|p| m.has(p[0], p[1]))
            && m.has(*c.last().unwrap(), c[0]);
        o.check(ok, "BfsPred::cycles:not-an-elementary-cycle", || format!("{c:?}"));
    }
}

fn check_bfs_pred<D: Order + OutNeighbors + Clone>(d: &D, other: &D, m: &Model, src: &[usize], r: &mut Rng, o: &mut CaseOut) -> bool {
    let n = m.n();
    let dist: BTreeMap<usize, i64> = m.levels(src).into_iter().map(|(k, v)| (k, v as i64)).collect();
    let mut unit = m.clone();
    for w in unit.arcs.values_mut() {
        *w = 1;
    }
    let tree = BfsPred::new(d, src.iter().copied()).predecessors();
    check_tree(o, "BfsPred::predecessors", &tree.pred, &unit, src, &dist);
    // item sequence: (pred, v)
    let items: Vec<(Option<usize>, usize)> = BfsPred::new(d, src.iter().copied()).take(4 * n + 4).collect();
    let items2: Vec<(Option<usize>, usize)> = BfsPred::new(d, src.iter().copied()).clone().take(4 * n + 4).collect();
    o.eq("BfsPred:clone-of-a-fresh-iterator", &items2, &items);
    {
        let mut x = BfsPred::new(other, [0usize].into_iter());
        x.clone_from(&BfsPred::new(d, src.iter().copied()));
        let items3: Vec<(Option<usize>, usize)> = x.take(4 * n + 4).collect();
        o.eq("BfsPred:clone_from-of-a-fresh-iterator", &items3, &items);
    }
    if n <= 24 && src.len() == 1 && m.size() % 6 == 1 {
        crate::obs::iter_consistency(o, "BfsPred", || BfsPred::new(d, src.iter().copied()));
        crate::obs::clone_midway(o, "BfsPred", || BfsPred::new(d, src.iter().copied()));
    }
    let vs: Vec<usize> = items.iter().map(|x| x.1).collect();
    let lv = m.levels(src);
    c04::check_level_seq(o, "BfsPred", &vs, &lv);
    let mut from_items = vec![None; n];
    for &(p, v) in &items {
        if v < n {
            from_items[v] = p;
        }
    }
    o.eq("BfsPred:items-vs-predecessors", &from_items, &tree.pred);
    let mut nontrivial = false;
    for t in predicates(r, n, src, &dist) {
        let got = BfsPred::new(d, src.iter().copied()).shortest_path(|v| t.contains(&v));
        check_path(o, "BfsPred::shortest_path", &got, &unit, src, &dist, &t);
        let ds: BTreeSet<i64> = t.iter().filter_map(|v| dist.get(v).copied()).collect();
        if ds.len() >= 2 || t.iter().any(|v| src.contains(v)) {
            nontrivial = true;
        }
    }
    let cycles = BfsPred::new(d, src.iter().copied()).cycles();
    if !cycles.is_empty() {
        o.bump("cycles_nonempty");
    }
    check_cycles(o, &cycles, m);
    nontrivial
}

pub fn case(idx: u64, seed: u64, p: &Params, o: &mut CaseOut) {
    let mut r = Rng::for_case(5, seed, idx);
    let mut fp = Fp::new();
    if r.chance(0.45) {
        // Dijkstra half
        let (m, src, fam) = c03::gen_case(&mut r, p.usize("max_order", 20));
        let n = m.n();
        let k = usize_scale(&mut r, &m);
        let d = build_w_usize_scaled(&m, k);
        let dist = m.dist_from(&src).expect("harness: negative circuit");
        let tree = DijkstraPred::new(&d, src.iter().copied()).predecessors();
        check_tree(o, "DijkstraPred::predecessors", &tree.pred, &m, &src, &dist);
        let items: Vec<(Option<usize>, usize)> = DijkstraPred::new(&d, src.iter().copied()).take(4 * n + 4).collect();
        let items2: Vec<(Option<usize>, usize)> = DijkstraPred::new(&d, src.iter().copied()).clone().take(4 * n + 4).collect();
        o.eq("DijkstraPred:clone-of-a-fresh-iterator", &items2, &items);
        {
            let other = AdjacencyListWeighted::<usize>::empty(n);
            let mut x = DijkstraPred::new(&other, [0usize].into_iter());
            x.clone_from(&DijkstraPred::new(&d, src.iter().copied()));
            let items3: Vec<(Option<usize>, usize)> = x.take(4 * n + 4).collect();
            o.eq("DijkstraPred:clone_from-of-a-fresh-iterator", &items3, &items);
        }
        let vs: Vec<usize> = items.iter().map(|x| x.1).collect();
        let set: BTreeSet<usize> = vs.iter().copied().collect();
        o.check(set.len() == vs.len(), "DijkstraPred:vertex-yielded-twice", || format!("{vs:?}"));
        let missing: Vec<usize> = dist.keys().copied().filter(|v| !set.contains(v)).collect();
        o.check(missing.is_empty(), "DijkstraPred:reachable-vertex-never-yielded", || format!("missing {missing:?}; yielded {vs:?}"));
        let sup = c03::superseded_pop(&m, &src);
        let mut nontrivial = sup;
        for t in predicates(&mut r, n, &src, &dist) {
            let got = DijkstraPred::new(&d, src.iter().copied()).shortest_path(|v| t.contains(&v));
            check_path(o, "DijkstraPred::shortest_path", &got, &m, &src, &dist, &t);
            let ds: BTreeSet<i64> = t.iter().filter_map(|v| dist.get(v).copied()).collect();
            if ds.len() >= 2 || t.iter().any(|v| src.contains(v)) {
                nontrivial = true;
            }
        }
        fp.s("dijkstra");
        m.fingerprint(&mut fp);
        for &s in &src {
            fp.us(s);
        }
        o.nontrivial = nontrivial;
        o.bump("DijkstraPred");
        if k > 1 {
            o.bump("weights_scaled_up");
        }
        o.bump(fam);
        if sup {
            o.bump("superseded_pop_cases");
        }
        if o.want_desc {
            o.desc = format!("DijkstraPred family={fam} {} sources={src:?} (every weight multiplied by {k})", m.describe());
        }
    } else {
        let (m, src, fam) = c04::gen_case(&mut r, p.usize("max_order", 20));
        let ty = r.below(5);
        let on = if r.chance(0.6) { m.n() } else { r.range(1, 12) };
        let om = crate::gen::family(&mut r, 4, on);
        let nt = match ty {
            0 => check_bfs_pred(&AdjacencyList::build(&m), &AdjacencyList::build(&om), &m, &src, &mut r, o),
            1 => check_bfs_pred(&AdjacencyMap::build(&m), &AdjacencyMap::build(&om), &m, &src, &mut r, o),
            2 => check_bfs_pred(&AdjacencyMatrix::build(&m), &AdjacencyMatrix::build(&om), &m, &src, &mut r, o),
            3 => check_bfs_pred(&EdgeList::build(&m), &EdgeList::build(&om), &m, &src, &mut r, o),
            _ => check_bfs_pred(&build_w_usize(&m), &build_w_usize(&om), &m, &src, &mut r, o),
        };
        fp.s("bfs").us(ty);
        m.fingerprint(&mut fp);
        for &s in &src {
            fp.us(s);
        }
        o.nontrivial = nt;
        o.bump("BfsPred");
        o.bump(c04::TYPES[ty]);
        o.bump(fam);
        if o.want_desc {
            o.desc = format!("BfsPred on {} family={fam} {} sources={src:?}", c04::TYPES[ty], m.describe());
        }
    }
    o.fp = fp.0;
}
