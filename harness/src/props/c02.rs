//! C02 — every query returns its textbook definition over the arc set.

use crate::ctx::CaseOut;
use crate::gen;
use crate::model::Model;
use crate::reprs::*;
use crate::rng::{Fp, Rng};
use crate::Params;
use graaf::*;
use std::collections::BTreeMap;

struct Tables {
    out: BTreeMap<usize, Vec<usize>>,
    inn: BTreeMap<usize, Vec<usize>>,
}

fn tables(m: &Model) -> Tables {
    let mut out: BTreeMap<usize, Vec<usize>> = m.verts.iter().map(|&v| (v, vec![])).collect();
    let mut inn = out.clone();
    for &(u, v) in m.arcs.keys() {
        out.get_mut(&u).unwrap().push(v);
        inn.get_mut(&v).unwrap().push(u);
    }
    // arcs are iterated in lexicographic order, so both lists are ascending
    Tables { out, inn }
}

fn walks(r: &mut Rng, m: &Model, t: &Tables, k: usize) -> Vec<Vec<usize>> {
    let vs = m.vert_list();
    let top = vs.iter().max().map_or(0, |x| x + 1);
    let mut ws: Vec<Vec<usize>> = vec![vec![], vec![vs[0]], vec![top], vec![vs[0], vs[0]]];
    if let Some(&(u, v)) = m.arcs.keys().next() {
        ws.push(vec![u, v]);
        ws.push(vec![u]);
        ws.push(vec![u, v, top]);
        ws.push(vec![top, u, v]);
        ws.push(vec![v, u]);
    }
    for i in 0..k {
        let len = if i % 8 == 7 { r.range(8, 40) } else { r.range(2, 7) };
        let mut w = vec![*r.pick(&vs)];
        match r.below(4) {
            0 | 1 => {
                // follow arcs as long as possible
                while w.len() < len {
                    let o = &t.out[w.last().unwrap()];
                    if o.is_empty() {
                        break;
                    }
                    w.push(*r.pick(o));
                }
                if r.chance(0.3) {
                    // break the walk at a random position
                    let i = r.below(w.len());
                    w[i] = if r.chance(0.5) { *r.pick(&vs) } else { top + r.below(2) };
                }
            }
            2 => {
                while w.len() < len {
                    w.push(*r.pick(&vs));
                }
            }
            _ => {
                while w.len() < len {
                    w.push(if r.chance(0.2) { top + r.below(3) } else { *r.pick(&vs) });
                }
            }
        }
        ws.push(w);
    }
    ws
}

fn check_queries<D>(d: &D, m: &Model, o: &mut CaseOut, r: &mut Rng, nwalks: usize)
where
    D: Clone
        + RemoveArc
        + Eq
        + Order
        + Size
        + Vertices
        + Arcs
        + HasArc
        + HasEdge
        + HasWalk
        + OutNeighbors
        + InNeighbors
        + Indegree
        + Outdegree
        + Degree
        + IsIsolated
        + IsPendant
        + Sinks
        + Sources
        + DegreeSequence
        + IndegreeSequence
        + OutdegreeSequence
        + SemidegreeSequence,
{
    let before = d.clone();
    let t = tables(m);
    let vs = m.vert_list();
    o.eq("order", &d.order(), &m.n());
    o.eq("size", &d.size(), &m.size());
    o.eq("vertices", &d.vertices().collect::<Vec<_>>(), &vs);
    o.eq("arcs", &d.arcs().collect::<Vec<_>>(), &m.arc_list());
    // per-vertex queries
    let (mut indeg, mut outdeg) = (vec![], vec![]);
    for &v in &vs {
        let ov = &t.out[&v];
        let iv = &t.inn[&v];
        indeg.push(iv.len());
        outdeg.push(ov.len());
        o.eq("out_neighbors", &d.out_neighbors(v).collect::<Vec<_>>(), ov);
        o.eq("in_neighbors", &d.in_neighbors(v).collect::<Vec<_>>(), iv);
        o.eq("indegree", &d.indegree(v), &iv.len());
        o.eq("outdegree", &d.outdegree(v), &ov.len());
        o.eq("degree", &d.degree(v), &(iv.len() + ov.len()));
        o.eq("is_sink", &d.is_sink(v), &ov.is_empty());
        o.eq("is_source", &d.is_source(v), &iv.is_empty());
        o.eq("is_isolated", &d.is_isolated(v), &(ov.is_empty() && iv.is_empty()));
        o.eq("is_pendant", &d.is_pendant(v), &(iv.len() + ov.len() == 1));
    }
    let deg: Vec<usize> = indeg.iter().zip(&outdeg).map(|(a, b)| a + b).collect();
    o.eq("sinks", &d.sinks().collect::<Vec<_>>(), &vs.iter().copied().filter(|v| t.out[v].is_empty()).collect::<Vec<_>>());
    o.eq("sources", &d.sources().collect::<Vec<_>>(), &vs.iter().copied().filter(|v| t.inn[v].is_empty()).collect::<Vec<_>>());
    o.eq("degree_sequence", &d.degree_sequence().collect::<Vec<_>>(), &deg);
    o.eq("indegree_sequence", &d.indegree_sequence().collect::<Vec<_>>(), &indeg);
    o.eq("outdegree_sequence", &d.outdegree_sequence().collect::<Vec<_>>(), &outdeg);
    o.eq(
        "semidegree_sequence",
        &d.semidegree_sequence().collect::<Vec<_>>(),
        &indeg.iter().copied().zip(outdeg.iter().copied()).collect::<Vec<_>>(),
    );
    o.eq("max_degree", &d.max_degree(), deg.iter().max().unwrap());
    o.eq("min_degree", &d.min_degree(), deg.iter().min().unwrap());
    o.eq("max_indegree", &d.max_indegree(), indeg.iter().max().unwrap());
    o.eq("min_indegree", &d.min_indegree(), indeg.iter().min().unwrap());
    o.eq("max_outdegree", &d.max_outdegree(), outdeg.iter().max().unwrap());
    o.eq("min_outdegree", &d.min_outdegree(), outdeg.iter().min().unwrap());
    // pair queries, including ids outside V (documented total)
    let ids = crate::obs::probe_ids(m);
    let (mut bad_arc, mut bad_edge) = (None, None);
    for &u in &ids {
        for &v in &ids {
            if d.has_arc(u, v) != m.has(u, v) {
                bad_arc = Some((u, v));
            }
            if d.has_edge(u, v) != (m.has(u, v) && m.has(v, u)) {
                bad_edge = Some((u, v));
            }
        }
    }
    o.check(bad_arc.is_none(), "has_arc", || format!("wrong at {:?}; model says {}", bad_arc.unwrap(), m.has(bad_arc.unwrap().0, bad_arc.unwrap().1)));
    o.check(bad_edge.is_none(), "has_edge", || format!("wrong at {:?}", bad_edge.unwrap()));
    for w in walks(r, m, &t, nwalks) {
        let want = m.is_walk(&w);
        let got = d.has_walk(&w);
        o.check(got == want, "has_walk", || format!("has_walk({w:?}) = {got}, definition says {want}"));
    }
    // iterator adapters on the public iterators
    if r.below(8) == 0 {
        let a = *r.pick(&vs);
        crate::obs::iter_consistency(o, "out_neighbors", || d.out_neighbors(a));
        crate::obs::iter_consistency(o, "in_neighbors", || d.in_neighbors(a));
        crate::obs::iter_consistency(o, "vertices", || d.vertices());
        crate::obs::iter_consistency(o, "arcs", || d.arcs());
        crate::obs::iter_consistency(o, "sinks", || d.sinks());
        crate::obs::iter_consistency(o, "sources", || d.sources());
        crate::obs::iter_consistency(o, "degree_sequence", || d.degree_sequence());
        crate::obs::iter_consistency(o, "indegree_sequence", || d.indegree_sequence());
        crate::obs::iter_consistency(o, "outdegree_sequence", || d.outdegree_sequence());
        crate::obs::iter_consistency(o, "semidegree_sequence", || d.semidegree_sequence());
    }
    // remove_arc is total: for ids outside V it answers false and changes nothing
    {
        let mut c = d.clone();
        let top = ids.iter().copied().filter(|x| !m.verts.contains(x)).collect::<Vec<_>>();
        let mut bad = None;
        for &x in &top {
            let y = *r.pick(&vs);
            if c.remove_arc(x, y) || c.remove_arc(y, x) || c.remove_arc(x, x) {
                bad = Some((x, y));
            }
        }
        o.check(bad.is_none(), "remove_arc-outside-ids-returned-true", || format!("{bad:?}"));
        o.check(c == before, "remove_arc-with-outside-ids-changed-the-digraph", || format!("ids tried: {top:?}"));
    }
    o.check(*d == before, "query-mutated-digraph", || "digraph != its pre-query clone".into());
}

fn check_weighted<W: Copy + Default + Ord + std::hash::Hash + std::fmt::Debug + Send + Sync + 'static>(
    d: &AdjacencyListWeighted<W>,
    m: &Model,
    o: &mut CaseOut,
    conv: impl Fn(W) -> i64,
) {
    for &u in &m.verts {
        let got: Vec<(usize, i64)> = d.out_neighbors_weighted(u).map(|(v, w)| (v, conv(*w))).collect();
        o.eq("out_neighbors_weighted", &got, &m.out_w(u));
    }
    let ids = crate::obs::probe_ids(m);
    let mut bad = None;
    for &u in &ids {
        for &v in &ids {
            if d.arc_weight(u, v).map(|w| conv(*w)) != m.w(u, v) {
                bad = Some((u, v));
            }
        }
    }
    o.check(bad.is_none(), "arc_weight", || format!("wrong at {:?}", bad.unwrap()));
    let aw: Vec<(usize, usize, i64)> = d.arcs_weighted().map(|(u, v, w)| (u, v, conv(*w))).collect();
    o.eq("arcs_weighted", &aw, &m.arc_list_w());
}

/// A user-defined representation that implements only the REQUIRED methods
/// of the operation traits, so that every provided method and blanket
/// implementation of the library runs on its own definition.
struct User(Model);

impl Vertices for User {
    fn vertices(&self) -> impl Iterator<Item = usize> {
        self.0.verts.iter().copied()
    }
}

impl Arcs for User {
    fn arcs(&self) -> impl Iterator<Item = (usize, usize)> {
        self.0.arcs.keys().copied()
    }
}

impl HasArc for User {
    fn has_arc(&self, u: usize, v: usize) -> bool {
        self.0.has(u, v)
    }
}

impl Indegree for User {
    fn indegree(&self, v: usize) -> usize {
        self.0.indeg(v)
    }
}

impl Outdegree for User {
    fn outdegree(&self, u: usize) -> usize {
        self.0.outdeg(u)
    }
}

fn check_user(m: &Model, o: &mut CaseOut) {
    let d = User(m.clone());
    let t = tables(m);
    let vs = m.vert_list();
    let (mut indeg, mut outdeg) = (vec![], vec![]);
    for &v in &vs {
        let (i, k) = (t.inn[&v].len(), t.out[&v].len());
        indeg.push(i);
        outdeg.push(k);
        o.eq("user-type:is_source", &d.is_source(v), &(i == 0));
        o.eq("user-type:is_sink", &d.is_sink(v), &(k == 0));
        o.eq("user-type:degree", &d.degree(v), &(i + k));
        o.eq("user-type:is_isolated", &d.is_isolated(v), &(i + k == 0));
        o.eq("user-type:is_pendant", &d.is_pendant(v), &(i + k == 1));
    }
    let deg: Vec<usize> = indeg.iter().zip(&outdeg).map(|(a, b)| a + b).collect();
    o.eq("user-type:sinks", &d.sinks().collect::<Vec<_>>(), &vs.iter().copied().filter(|v| t.out[v].is_empty()).collect::<Vec<_>>());
    o.eq("user-type:sources", &d.sources().collect::<Vec<_>>(), &vs.iter().copied().filter(|v| t.inn[v].is_empty()).collect::<Vec<_>>());
    o.eq("user-type:outdegree_sequence", &d.outdegree_sequence().collect::<Vec<_>>(), &outdeg);
    o.eq("user-type:semidegree_sequence", &d.semidegree_sequence().collect::<Vec<_>>(), &indeg.iter().copied().zip(outdeg.iter().copied()).collect::<Vec<_>>());
    o.eq("user-type:max_degree", &d.max_degree(), deg.iter().max().unwrap());
    o.eq("user-type:min_degree", &d.min_degree(), deg.iter().min().unwrap());
    o.eq("user-type:max_indegree", &d.max_indegree(), indeg.iter().max().unwrap());
    o.eq("user-type:min_indegree", &d.min_indegree(), indeg.iter().min().unwrap());
    o.eq("user-type:max_outdegree", &d.max_outdegree(), outdeg.iter().max().unwrap());
    o.eq("user-type:min_outdegree", &d.min_outdegree(), outdeg.iter().min().unwrap());
}

pub fn case(idx: u64, seed: u64, p: &Params, o: &mut CaseOut) {
    let mut r = Rng::for_case(2, seed, idx);
    let max = p.usize("max_order", 130);
    let fam = r.below(gen::FAMILIES.len());
    let n = if r.chance(0.75) { gen::small_order(&mut r, max.min(12)) } else { gen::order(&mut r, max) };
    let mut m = gen::family(&mut r, fam, n);
    let ty = r.below(7);
    let nwalks = p.usize("walks", 40);
    let tyname = match ty {
        0 => {
            let d = AdjacencyList::build(&m);
            check_queries(&d, &m, o, &mut r, nwalks);
            o.eq("contiguous_order", &d.contiguous_order(), &m.n());
            "AdjacencyList"
        }
        1 => {
            check_queries(&AdjacencyMap::build(&m), &m, o, &mut r, nwalks);
            "AdjacencyMap"
        }
        2 => {
            let d = AdjacencyMatrix::build(&m);
            check_queries(&d, &m, o, &mut r, nwalks);
            o.eq("contiguous_order", &d.contiguous_order(), &m.n());
            "AdjacencyMatrix"
        }
        3 => {
            let d = EdgeList::build(&m);
            check_queries(&d, &m, o, &mut r, nwalks);
            o.eq("contiguous_order", &d.contiguous_order(), &m.n());
            "EdgeList"
        }
        4 => {
            gen::weights(&mut r, &mut m, gen::WClass::Small);
            let d = build_w_usize(&m);
            check_queries(&d, &m, o, &mut r, nwalks);
            check_weighted(&d, &m, o, |w| w as i64);
            "AdjacencyListWeighted<usize>"
        }
        5 => {
            gen::weights(&mut r, &mut m, gen::WClass::MixedNeg);
            let d = build_w_isize(&m);
            check_queries(&d, &m, o, &mut r, nwalks);
            check_weighted(&d, &m, o, |w| w as i64);
            "AdjacencyListWeighted<isize>"
        }
        _ => {
            m = gen::sparsify(&mut r, &m);
            check_queries(&build_map_any(&m), &m, o, &mut r, nwalks);
            "AdjacencyMap(non-contiguous)"
        }
    };
    if idx % 16 == 5 && m.n() <= 40 {
        check_user(&m, o);
        o.bump("user-defined type (provided methods and blanket impls)");
    }
    let mut fp = Fp::new();
    fp.s(tyname);
    m.fingerprint(&mut fp);
    o.fp = fp.0;
    let n = m.n();
    o.nontrivial = m.size() >= 1 && m.size() < n * n.saturating_sub(1);
    o.bump(tyname);
    o.bump(gen::FAMILIES[fam]);
    o.bumpn("order/8", n / 8);
    if o.want_desc {
        o.desc = format!("{tyname} family={} {}", gen::FAMILIES[fam], m.describe());
    }
}
