//! C16 — conversions between representations preserve the digraph.

use crate::ctx::CaseOut;
use crate::gen;
use crate::model::Model;
use crate::obs::{observe, observe_w};
use crate::reprs::*;
use crate::rng::{Fp, Rng};
use crate::Params;
use graaf::*;
use std::collections::{BTreeMap, BTreeSet};

pub const TYPES: [&str; 4] = ["AdjacencyList", "AdjacencyMap", "AdjacencyMatrix", "EdgeList"];

#[derive(Clone, PartialEq, Eq, Debug)]
enum Any {
    AL(AdjacencyList),
    AM(AdjacencyMap),
    MX(AdjacencyMatrix),
    EL(EdgeList),
}

fn build_any(k: usize, m: &Model) -> Any {
    match k {
        0 => Any::AL(AdjacencyList::build(m)),
        1 => Any::AM(AdjacencyMap::build(m)),
        2 => Any::MX(AdjacencyMatrix::build(m)),
        _ => Any::EL(EdgeList::build(m)),
    }
}

fn kind(a: &Any) -> usize {
    match a {
        Any::AL(_) => 0,
        Any::AM(_) => 1,
        Any::MX(_) => 2,
        Any::EL(_) => 3,
    }
}

fn convert(a: &Any, to: usize) -> Any {
    macro_rules! conv {
        ($d:expr, $same:expr) => {
            match to {
                0 => Any::AL(AdjacencyList::from($d.clone())),
                1 => Any::AM(AdjacencyMap::from($d.clone())),
                2 => Any::MX(AdjacencyMatrix::from($d.clone())),
                _ => Any::EL(EdgeList::from($d.clone())),
            }
        };
    }
    match a {
        Any::AL(d) => match to {
            0 => Any::AL(d.clone()),
            1 => Any::AM(AdjacencyMap::from(d.clone())),
            2 => Any::MX(AdjacencyMatrix::from(d.clone())),
            _ => Any::EL(EdgeList::from(d.clone())),
        },
        Any::AM(d) => match to {
            1 => Any::AM(d.clone()),
            0 => Any::AL(AdjacencyList::from(d.clone())),
            2 => Any::MX(AdjacencyMatrix::from(d.clone())),
            _ => Any::EL(EdgeList::from(d.clone())),
        },
        Any::MX(d) => match to {
            2 => Any::MX(d.clone()),
            0 => Any::AL(AdjacencyList::from(d.clone())),
            1 => Any::AM(AdjacencyMap::from(d.clone())),
            _ => Any::EL(EdgeList::from(d.clone())),
        },
        Any::EL(d) => match to {
            3 => Any::EL(d.clone()),
            0 => Any::AL(AdjacencyList::from(d.clone())),
            1 => Any::AM(AdjacencyMap::from(d.clone())),
            _ => Any::MX(AdjacencyMatrix::from(d.clone())),
        },
    }
}

fn obs_any(a: &Any, m: &Model, o: &mut CaseOut, tag: &str) {
    match a {
        Any::AL(d) => observe(d, m, o, tag, m.n() <= 20),
        Any::AM(d) => observe(d, m, o, tag, m.n() <= 20),
        Any::MX(d) => observe(d, m, o, tag, m.n() <= 20),
        Any::EL(d) => observe(d, m, o, tag, m.n() <= 20),
    }
}

fn weighted(a: &Any, m: &Model, o: &mut CaseOut) {
    let mut unit = m.clone();
    for w in unit.arcs.values_mut() {
        *w = 1;
    }
    macro_rules! both {
        ($d:expr, $n:expr) => {{
            let wu = AdjacencyListWeighted::<usize>::from($d.clone());
            observe(&wu, &unit, o, &format!("AdjacencyListWeighted<usize>::from({})", $n), true);
            observe_w(&wu, &unit, o, &format!("AdjacencyListWeighted<usize>::from({})", $n), |w| *w as i64);
            let wi = AdjacencyListWeighted::<isize>::from($d.clone());
            observe(&wi, &unit, o, &format!("AdjacencyListWeighted<isize>::from({})", $n), true);
            observe_w(&wi, &unit, o, &format!("AdjacencyListWeighted<isize>::from({})", $n), |w| *w as i64);
        }};
    }
    match a {
        Any::AL(d) => both!(d, "AdjacencyList"),
        Any::AM(d) => both!(d, "AdjacencyMap"),
        Any::MX(d) => both!(d, "AdjacencyMatrix"),
        Any::EL(d) => both!(d, "EdgeList"),
    }
}

fn iter_builders(r: &mut Rng, m: &Model, o: &mut CaseOut) {
    let n = m.n();
    // rows of out-neighbour sets
    let rows: Vec<BTreeSet<usize>> = (0..n).map(|u| m.out(u).into_iter().collect()).collect();
    observe(&AdjacencyList::from(rows.clone()), m, o, "AdjacencyList::from(rows)", true);
    observe(&AdjacencyMap::from(rows.clone()), m, o, "AdjacencyMap::from(rows)", true);
    let mut mw = m.clone();
    gen::weights(r, &mut mw, gen::WClass::MixedNeg);
    let wrows: Vec<BTreeMap<usize, isize>> = (0..n).map(|u| mw.out_w(u).into_iter().map(|(v, w)| (v, w as isize)).collect()).collect();
    let wd = AdjacencyListWeighted::<isize>::from(wrows);
    observe(&wd, &mw, o, "AdjacencyListWeighted::from(rows)", true);
    observe_w(&wd, &mw, o, "AdjacencyListWeighted::from(rows)", |w| *w as i64);
    // arcs, with duplicates and in random order: order = largest id + 1
    let mut arcs = m.arc_list();
    if !arcs.is_empty() {
        for _ in 0..r.below(4) {
            let a = *r.pick(&arcs);
            arcs.push(a);
        }
        r.shuffle(&mut arcs);
        let top = arcs.iter().map(|&(u, v)| u.max(v)).max().unwrap() + 1;
        let mut want = m.clone();
        want.verts = (0..top).collect();
        observe(&AdjacencyMatrix::from(arcs.clone()), &want, o, "AdjacencyMatrix::from(arcs)", true);
        observe(&EdgeList::from(arcs.clone()), &want, o, "EdgeList::from(arcs)", true);
    }
    // The same inputs through iterators whose size_hint says little or nothing
    // (filter: lower bound 0; from_fn: (0, None); chain of both; rev).
    {
        let mut it = rows.clone().into_iter();
        observe(&AdjacencyList::from(std::iter::from_fn(move || it.next())), m, o, "AdjacencyList::from(rows via from_fn)", false);
        observe(&AdjacencyMap::from(rows.clone().into_iter().filter(|_| true)), m, o, "AdjacencyMap::from(rows via filter)", false);
        let mut it = rows.clone().into_iter();
        observe(&AdjacencyMap::from(std::iter::from_fn(move || it.next())), m, o, "AdjacencyMap::from(rows via from_fn)", false);
        let k = n / 2;
        let (front, back) = (rows[..k].to_vec(), rows[k..].to_vec());
        observe(&AdjacencyList::from(front.clone().into_iter().chain(back.clone().into_iter().filter(|_| true))), m, o, "AdjacencyList::from(rows via chain+filter)", false);
        observe(&AdjacencyMap::from(front.into_iter().filter(|_| true).chain(back)), m, o, "AdjacencyMap::from(rows via filter+chain)", false);
        let wrows: Vec<BTreeMap<usize, usize>> = (0..n).map(|u| m.out(u).into_iter().map(|v| (v, u + v)).collect()).collect();
        let mut mw2 = m.clone();
        for (&(u, v), w) in mw2.arcs.iter_mut() {
            *w = (u + v) as i64;
        }
        let mut it = wrows.into_iter();
        let wd = AdjacencyListWeighted::<usize>::from(std::iter::from_fn(move || it.next()));
        observe(&wd, &mw2, o, "AdjacencyListWeighted::from(rows via from_fn)", false);
        observe_w(&wd, &mw2, o, "AdjacencyListWeighted::from(rows via from_fn)", |w| *w as i64);
        let arcs = arcs_in_some_order(m);
        if !arcs.is_empty() {
            let top = arcs.iter().map(|&(u, v)| u.max(v)).max().unwrap() + 1;
            let mut want = m.clone();
            want.verts = (0..top).collect();
            let mut it = arcs.clone().into_iter();
            observe(&AdjacencyMatrix::from(std::iter::from_fn(move || it.next())), &want, o, "AdjacencyMatrix::from(arcs via from_fn)", false);
            observe(&EdgeList::from(arcs.clone().into_iter().filter(|_| true)), &want, o, "EdgeList::from(arcs via filter)", false);
            observe(&EdgeList::from(arcs.into_iter().rev()), &want, o, "EdgeList::from(arcs reversed)", false);
        }
    }
    // invalid inputs must panic
    if n >= 1 {
        let u = r.below(n);
        let mut bad = rows.clone();
        bad[u].insert(u); // self-loop
        let _ = o.must_panic("AdjacencyList::from(rows):self-loop-accepted", || format!("row {u} contains {u}"), || AdjacencyList::from(bad.clone()));
        let _ = o.must_panic("AdjacencyMap::from(rows):self-loop-accepted", || format!("row {u} contains {u}"), || AdjacencyMap::from(bad.clone()));
        let wloop: Vec<BTreeMap<usize, isize>> = bad.iter().map(|s| s.iter().map(|&v| (v, -2)).collect()).collect();
        let _ = o.must_panic("AdjacencyListWeighted::from(rows):self-loop-accepted", || format!("row {u} contains {u}"), || AdjacencyListWeighted::<isize>::from(wloop.clone()));
        let mut bad = rows.clone();
        let far = *r.pick(&[n, n + 1, n + 2, 2 * n + 1, n + 64, 1 << 20, usize::MAX - 1, usize::MAX]);
        bad[u].insert(far); // head outside
        let _ = o.must_panic("AdjacencyList::from(rows):outside-head-accepted", || format!("row {u} contains {far}, order {n}"), || AdjacencyList::from(bad.clone()));
        let _ = o.must_panic("AdjacencyMap::from(rows):outside-head-accepted", || format!("row {u} contains {far}, order {n}"), || AdjacencyMap::from(bad.clone()));
        let wbad: Vec<BTreeMap<usize, usize>> = bad.iter().map(|s| s.iter().map(|&v| (v, 1)).collect()).collect();
        let _ = o.must_panic("AdjacencyListWeighted::from(rows):outside-head-accepted", || format!("row {u} contains {far}"), || AdjacencyListWeighted::<usize>::from(wbad.clone()));
        // a self-loop after some valid arcs: the constructor unwinds half-way through its input
        let mut late = m.arc_list();
        late.truncate(3);
        late.push((u, u));
        let _ = o.must_panic("AdjacencyMatrix::from(arcs):late-self-loop-accepted", || format!("{late:?}"), || AdjacencyMatrix::from(late.clone()));
        let _ = o.must_panic("EdgeList::from(arcs):late-self-loop-accepted", || format!("{late:?}"), || EdgeList::from(late.clone()));
        let loopy = vec![(u, u)];
        let _ = o.must_panic("AdjacencyMatrix::from(arcs):self-loop-accepted", || format!("{loopy:?}"), || AdjacencyMatrix::from(loopy.clone()));
        let _ = o.must_panic("EdgeList::from(arcs):self-loop-accepted", || format!("{loopy:?}"), || EdgeList::from(loopy.clone()));
    }
    // documented: empty input panics
    let _ = o.must_panic("AdjacencyList::from(no rows):accepted", String::new, || AdjacencyList::from(Vec::<BTreeSet<usize>>::new()));
    let _ = o.must_panic("AdjacencyMap::from(no rows):accepted", String::new, || AdjacencyMap::from(Vec::<BTreeSet<usize>>::new()));
    let _ = o.must_panic("AdjacencyMatrix::from(no arcs):accepted", String::new, || AdjacencyMatrix::from(Vec::<(usize, usize)>::new()));
    let _ = o.must_panic("AdjacencyListWeighted::from(no rows):accepted", String::new, || AdjacencyListWeighted::<usize>::from(Vec::<BTreeMap<usize, usize>>::new()));
}

/// The public fixtures exist once per representation (and the weighted ones
/// once per weight type); all copies of one fixture must be the same digraph.
fn fixtures_agree(o: &mut CaseOut) {
    use graaf::repr::{adjacency_list::fixture as al, adjacency_map::fixture as am, adjacency_matrix::fixture as mx, edge_list::fixture as el};
    macro_rules! fx {
        ($($name:ident),*) => {$(
            {
                let a = al::$name();
                let mut m = Model::new(a.order());
                for (u, v) in a.arcs() {
                    m.arcs.insert((u, v), 1);
                }
                let tag = stringify!($name);
                observe(&a, &m, o, &format!("fixture {tag} AdjacencyList"), true);
                observe(&am::$name(), &m, o, &format!("fixture {tag} AdjacencyMap"), true);
                observe(&mx::$name(), &m, o, &format!("fixture {tag} AdjacencyMatrix"), true);
                observe(&el::$name(), &m, o, &format!("fixture {tag} EdgeList"), true);
            }
        )*};
    }
    fx!(bang_jensen_196, bang_jensen_34, bang_jensen_94, kattis_builddeps, kattis_cantinaofbabel_1, kattis_cantinaofbabel_2,
        kattis_escapewallmaria_1, kattis_escapewallmaria_2, kattis_escapewallmaria_3);
    use graaf::repr::adjacency_list_weighted::fixture as w;
    macro_rules! fw {
        ($(($u:ident, $i:ident)),*) => {$(
            {
                let a = w::$u();
                let b = w::$i();
                let au: Vec<(usize, usize, i64)> = a.arcs_weighted().map(|(u, v, x)| (u, v, *x as i64)).collect();
                let bi: Vec<(usize, usize, i64)> = b.arcs_weighted().map(|(u, v, x)| (u, v, *x as i64)).collect();
                o.eq(&format!("fixture {} vs {}:arcs_weighted", stringify!($u), stringify!($i)), &bi, &au);
                o.eq(&format!("fixture {} vs {}:order", stringify!($u), stringify!($i)), &b.order(), &a.order());
            }
        )*};
    }
    fw!((bang_jensen_94_usize, bang_jensen_94_isize), (bang_jensen_96_usize, bang_jensen_96_isize), (kattis_bryr_1_usize, kattis_bryr_1_isize),
        (kattis_bryr_2_usize, kattis_bryr_2_isize), (kattis_bryr_3_usize, kattis_bryr_3_isize),
        (kattis_crosscountry_usize, kattis_crosscountry_isize), (kattis_shortestpath1_usize, kattis_shortestpath1_isize));
}

pub fn case(idx: u64, seed: u64, p: &Params, o: &mut CaseOut) {
    let mut r = Rng::for_case(16, seed, idx);
    if idx % 512 == 7 {
        fixtures_agree(o);
        o.bump("repo_fixtures_in_every_representation");
    }
    let max = p.usize("max_order", 40);
    let fam = r.below(gen::FAMILIES.len());
    let n = if r.chance(0.7) { gen::algo_order(&mut r, max.min(10), 130) } else { r.range(1, max) };
    let fam = if n > max && (n > 70 || r.chance(0.5)) { gen::sparse_family(&mut r) } else { fam };
    let mut m = gen::family(&mut r, fam, n);
    // an isolated top vertex, so that "order = largest id + 1" is not an accident
    let isolated_top = n >= 2 && r.chance(0.4);
    if isolated_top {
        let t = n - 1;
        for a in m.arc_list() {
            if a.0 == t || a.1 == t {
                m.remove(a.0, a.1);
            }
        }
    }
    let from = r.below(4);
    let start = build_any(from, &m);
    let mut chain = vec![TYPES[from]];
    // all ordered pairs from this source
    for to in 0..4 {
        let c = convert(&start, to);
        obs_any(&c, &m, o, &format!("{}::from({})", TYPES[to], TYPES[from]));
        let back = convert(&c, from);
        o.check(back == start, &format!("round-trip {}->{}->{}", TYPES[from], TYPES[to], TYPES[from]), || "round trip is not the identity".into());
        o.check(c == build_any(to, &m), &format!("{}::from({}):differs-from-direct-construction", TYPES[to], TYPES[from]), || String::new());
    }
    // a chain of 2-4 conversions
    let mut cur = start.clone();
    for _ in 0..r.range(2, 4) {
        let to = r.below(4);
        cur = convert(&cur, to);
        chain.push(TYPES[to]);
    }
    obs_any(&cur, &m, o, &format!("chain {}", chain.join("->")));
    o.check(convert(&cur, kind(&start)) == start, "chain-round-trip", || chain.join("->"));
    weighted(&start, &m, o);
    if r.chance(0.5) {
        iter_builders(&mut r, &m, o);
        o.bump("iter_builders");
    }
    let mut fp = Fp::new();
    fp.us(from);
    m.fingerprint(&mut fp);
    o.fp = fp.0;
    o.nontrivial = m.size() >= 2 && isolated_top;
    o.bump(TYPES[from]);
    o.bump(gen::FAMILIES[fam]);
    if o.want_desc {
        o.desc = format!("from {} family={} {} chain {}", TYPES[from], gen::FAMILIES[fam], m.describe(), chain.join("->"));
    }
}
