//! C17 — results never depend on the number of worker threads or their
//! interleaving.

use crate::ctx::CaseOut;
use crate::events::check_tiling;
use crate::gen;
use crate::model::Model;
use crate::obs::observe;
use crate::props::c11::{hook_begin, hook_end};
use crate::props::c15::{arcs_hash, check_erdos, check_tournament};
use crate::reprs::*;
use crate::rng::{Fp, Rng};
use crate::Params;
use graaf::verif as hk;
use graaf::*;

pub const ORDERS: [usize; 19] = [1, 2, 3, 4, 5, 7, 8, 9, 15, 16, 17, 31, 33, 47, 64, 65, 100, 129, 257];
pub const OPS: [&str; 8] = [
    "AdjacencyList::complement",
    "AdjacencyList::complete",
    "AdjacencyList::degree_sequence",
    "AdjacencyList::is_semicomplete",
    "AdjacencyList::union",
    "AdjacencyMap::union",
    "AdjacencyMap::random_tournament",
    "AdjacencyMap::erdos_renyi",
];

fn tile(o: &mut CaseOut, ev: &[(u64, u64, usize, usize)], site: u64, total: usize, allow_empty: bool, what: &str) {
    match check_tiling(ev, site, total, allow_empty, o, what) {
        Some(t) => {
            o.sigs.push((site, t.signature));
            o.bumpn("workers", t.workers);
        }
        None => o.bump("hook_log_empty"),
    }
}

/// A digraph that is semicomplete except (maybe) for one pair located in the
/// first / last / a random chunk of rows.
fn semicomplete_family(r: &mut Rng, n: usize) -> Model {
    let mut m = gen::tournament(r, n);
    for u in 0..n {
        for v in 0..n {
            if u != v && r.chance(0.2) {
                m.add(u, v, 1);
            }
        }
    }
    if n >= 2 {
        match r.below(4) {
            0 => {}
            1 => {
                m.remove(0, 1);
                m.remove(1, 0);
            }
            2 => {
                m.remove(n - 2, n - 1);
                m.remove(n - 1, n - 2);
            }
            _ => {
                let u = r.below(n);
                let v = (u + 1 + r.below(n - 1)) % n;
                m.remove(u, v);
                m.remove(v, u);
            }
        }
    }
    m
}

/// Several caller threads use the same operation at the same time, each on
/// its own input: the answers must still be the single-threaded ones (no
/// process-wide scratch state). Returns the mismatches found.
fn concurrent_callers(r: &mut Rng, o: &mut CaseOut, max: usize) -> String {
    let op = r.below(6);
    let callers = r.range(2, 4);
    let mut inputs: Vec<(Model, Model)> = Vec::new();
    for _ in 0..callers {
        let n = (*r.pick(&[3usize, 9, 17, 33, 64, 65, 70, 100])).min(max);
        let dens = *r.pick(&[0.1, 0.5, 0.9]);
        let a = if op == 3 { semicomplete_family(r, n) } else { gen::random_arcs(r, n, dens) };
        let n2 = (*r.pick(&[n, n + 1, 5, 40])).min(max).max(1);
        let b = gen::random_arcs(r, n2, 0.3);
        inputs.push((a, b));
    }
    let names = ["complement", "degree_sequence", "union", "is_semicomplete", "AdjacencyMap::union", "complete"];
    let bad: Vec<String> = std::thread::scope(|s| {
        let hs: Vec<_> = inputs
            .iter()
            .enumerate()
            .map(|(t, (ma, mb))| {
                s.spawn(move || {
                    let mut bad = Vec::new();
                    let (a, b) = (AdjacencyList::build(ma), AdjacencyList::build(mb));
                    let (xa, xb) = (AdjacencyMap::build(ma), AdjacencyMap::build(mb));
                    for rep in 0..4 {
                        let ok = match op {
                            0 => a.complement().arcs().eq(ma.complement().arc_list()),
                            1 => a.degree_sequence().eq((0..ma.n()).map(|v| ma.indeg(v) + ma.outdeg(v))),
                            2 => a.union(&b).arcs().eq(ma.union(mb).arc_list()),
                            3 => a.is_semicomplete() == ma.is_semicomplete(),
                            5 => {
                                let n = ma.n();
                                let c = AdjacencyList::complete(n);
                                c.order() == n && c.arcs().eq((0..n).flat_map(|u| (0..n).filter(move |&v| v != u).map(move |v| (u, v))))
                            }
                            _ => xa.union(&xb).arcs().eq(ma.union(mb).arc_list()),
                        };
                        if !ok {
                            bad.push(format!("caller {t} repetition {rep}: wrong result on {}", ma.describe()));
                        }
                    }
                    bad
                })
            })
            .collect();
        hs.into_iter().flat_map(|h| h.join().unwrap_or_else(|_| vec!["a caller thread panicked".to_string()])).collect()
    });
    o.check(bad.is_empty(), &format!("concurrent-callers:AdjacencyList::{}", names[op]), || crate::ctx::clip(&bad.join(" | ")));
    o.bump("concurrent_callers");
    format!("{} callers of {} at the same time", callers, names[op])
}

pub fn case(idx: u64, seed: u64, p: &Params, o: &mut CaseOut) {
    let mut r = Rng::for_case(17, seed, idx);
    if p.usize("concurrent", 1) == 1 && idx % 16 == 5 {
        let d = concurrent_callers(&mut r, o, p.usize("max_order", 257));
        o.fp = Fp::new().s("conc").u(idx).0;
        o.nontrivial = true;
        if o.want_desc {
            o.desc = d;
        }
        return;
    }
    let max = p.usize("max_order", 257);
    let op = (idx as usize) % OPS.len();
    let pick_n = |r: &mut Rng| -> usize { (*r.pick(&ORDERS)).min(max) };
    let n = pick_n(&mut r);
    let t = std::thread::available_parallelism().map_or(1, |x| x.get());
    let dens = *r.pick(&[0.0, 0.1, 0.5, 0.9, 1.0]);
    let mut fp = Fp::new();
    fp.s(OPS[op]).us(n);
    let mut desc = String::new();
    let mut rows = n;
    match op {
        0 => {
            let m = gen::random_arcs(&mut r, n, dens);
            let d = AdjacencyList::build(&m);
            hook_begin(p, idx);
            let c = d.complement();
            let ev = hook_end();
            observe(&c, &m.complement(), o, OPS[op], n <= 33);
            tile(o, &ev, hk::AL_COMPLEMENT, n, false, OPS[op]);
            m.fingerprint(&mut fp);
            o.digest.push((fp.0, arcs_hash(&c), false));
            if o.want_desc {
                desc = m.describe();
            }
        }
        1 => {
            hook_begin(p, idx);
            let c = AdjacencyList::complete(n);
            let ev = hook_end();
            let mut rr = Rng(0);
            observe(&c, &gen::family(&mut rr, 2, n), o, OPS[op], n <= 33);
            if n > 1 {
                tile(o, &ev, hk::AL_COMPLETE, n, false, OPS[op]);
            }
            o.digest.push((fp.0, arcs_hash(&c), false));
            desc = format!("order {n}");
        }
        2 => {
            let m = gen::random_arcs(&mut r, n, dens);
            let d = AdjacencyList::build(&m);
            hook_begin(p, idx);
            let got: Vec<usize> = d.degree_sequence().collect();
            let ev = hook_end();
            let want: Vec<usize> = (0..n).map(|v| m.indeg(v) + m.outdeg(v)).collect();
            o.eq(OPS[op], &got, &want);
            tile(o, &ev, hk::AL_DEGREE_SEQUENCE, n, false, OPS[op]);
            m.fingerprint(&mut fp);
            let mut h = Fp::new();
            for x in &got {
                h.us(*x);
            }
            o.digest.push((fp.0, h.0, false));
            if o.want_desc {
                desc = m.describe();
            }
        }
        3 => {
            let m = semicomplete_family(&mut r, n);
            let d = AdjacencyList::build(&m);
            hook_begin(p, idx);
            let got = d.is_semicomplete();
            let ev = hook_end();
            o.eq(OPS[op], &got, &m.is_semicomplete());
            if n > 1 && m.size() >= n * (n - 1) / 2 {
                tile(o, &ev, hk::AL_IS_SEMICOMPLETE, n, false, OPS[op]);
            }
            m.fingerprint(&mut fp);
            o.digest.push((fp.0, got as u64, false));
            if o.want_desc {
                desc = m.describe();
            }
        }
        4 | 5 => {
            let n2 = match r.below(4) {
                0 => n,
                1 => (n + 1).min(max),
                2 => n / 2 + 1,
                _ => pick_n(&mut r),
            };
            let ma = gen::random_arcs(&mut r, n, dens);
            let d2 = *r.pick(&[0.0, 0.1, 0.5, 1.0]);
            let mut mb = gen::random_arcs(&mut r, n2, d2);
            ma.fingerprint(&mut fp);
            if op == 4 {
                mb.fingerprint(&mut fp);
                let (a, b) = (AdjacencyList::build(&ma), AdjacencyList::build(&mb));
                hook_begin(p, idx);
                let u = a.union(&b);
                let ev = hook_end();
                let mut want = ma.union(&mb);
                want.verts = (0..n.max(n2)).collect();
                observe(&u, &want, o, OPS[op], n.max(n2) <= 33);
                tile(o, &ev, hk::AL_UNION, n.max(n2), false, OPS[op]);
                o.digest.push((fp.0, arcs_hash(&u), false));
                rows = n.max(n2);
            } else {
                // equal keys straddle the merge-path boundaries when both
                // operands are contiguous; sometimes shift / sparsify B
                let mut ma2 = ma.clone();
                match r.below(4) {
                    0 => mb = gen::sparsify(&mut r, &mb),
                    1 => {
                        let sh = r.range(1, n.max(1));
                        mb = Model {
                            verts: mb.verts.iter().map(|v| v + sh).collect(),
                            arcs: mb.arcs.iter().map(|(&(u, v), &w)| ((u + sh, v + sh), w)).collect(),
                        };
                    }
                    2 => ma2 = gen::sparsify(&mut r, &ma),
                    _ => {}
                }
                if r.chance(0.12) {
                    // the largest legal vertex id, in one operand or in both
                    ma2 = gen::with_max_id(&ma2);
                    if r.chance(0.6) {
                        mb = gen::with_max_id(&mb);
                    }
                    o.bump("vertex_id_usize::MAX");
                }
                ma2.fingerprint(&mut fp);
                mb.fingerprint(&mut fp);
                let (a, b) = (build_map_any(&ma2), build_map_any(&mb));
                hook_begin(p, idx);
                let u = a.union(&b);
                let ev = hook_end();
                observe(&u, &ma2.union(&mb), o, OPS[op], ma2.n() + mb.n() <= 40);
                tile(o, &ev, hk::AM_UNION_LHS, ma2.n(), true, "AdjacencyMap::union(lhs)");
                tile(o, &ev, hk::AM_UNION_RHS, mb.n(), true, "AdjacencyMap::union(rhs)");
                o.digest.push((fp.0, arcs_hash(&u), false));
                rows = ma2.n() + mb.n();
                if o.want_desc {
                    desc = format!("A: {} B: {}", ma2.describe(), mb.describe());
                }
            }
            if o.want_desc && desc.is_empty() {
                desc = format!("A: {} B: {}", ma.describe(), mb.describe());
            }
        }
        6 => {
            let s = *r.pick(&[0u64, 1, u64::MAX, 42]);
            fp.u(s);
            hook_begin(p, idx);
            let d = AdjacencyMap::random_tournament(n, s);
            let ev = hook_end();
            check_tournament(&d, n, o, "AdjacencyMap");
            if n > 1 {
                tile(o, &ev, hk::AM_RANDOM_TOURNAMENT, n, false, OPS[op]);
            }
            // must repeat exactly within this configuration
            o.check(d == AdjacencyMap::random_tournament(n, s), "AdjacencyMap::random_tournament:not-repeatable", || format!("order {n} seed {s}"));
            o.digest.push((fp.0, arcs_hash(&d), true));
            desc = format!("order {n} seed {s}");
        }
        _ => {
            let s = *r.pick(&[0u64, 1, u64::MAX, 42]);
            let pr: f64 = *r.pick(&[0.0, 0.25, 0.5, 0.75, 1.0]);
            fp.u(s).u(pr.to_bits());
            hook_begin(p, idx);
            let d = AdjacencyMap::erdos_renyi(n, pr, s);
            let ev = hook_end();
            check_erdos(&d, n, pr, o, "AdjacencyMap");
            if n > 1 {
                tile(o, &ev, hk::AM_ERDOS_RENYI, n, false, OPS[op]);
            }
            o.check(d == AdjacencyMap::erdos_renyi(n, pr, s), "AdjacencyMap::erdos_renyi:not-repeatable", || format!("order {n} p {pr} seed {s}"));
            o.digest.push((fp.0, arcs_hash(&d), true));
            desc = format!("order {n} p {pr} seed {s}");
        }
    }
    o.fp = fp.0;
    o.nontrivial = rows > t;
    o.bump(OPS[op]);
    o.bumpn("threads_available", t);
    o.bumpn("order", n);
    if o.want_desc {
        o.desc = format!("{} {desc} (available_parallelism {t})", OPS[op]);
    }
}
