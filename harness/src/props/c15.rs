//! C15 — seeded random generators are deterministic and always structurally
//! valid.

use crate::ctx::CaseOut;
use crate::events::check_tiling;
use crate::model::Model;
use crate::props::c11::{hook_begin, hook_end};
use crate::rng::{Fp, Rng};
use crate::Params;
use graaf::gen::prng::Xoshiro256StarStar;
use graaf::*;

pub const TYPES: [&str; 4] = ["AdjacencyList", "AdjacencyMap", "AdjacencyMatrix", "EdgeList"];

pub fn model_of<D: Vertices + Arcs>(d: &D) -> Model {
    let mut m = Model::default();
    for v in d.vertices() {
        m.verts.insert(v);
    }
    for (u, v) in d.arcs() {
        m.arcs.insert((u, v), 1);
    }
    m
}

pub fn arcs_hash<D: Arcs + Order>(d: &D) -> u64 {
    let mut fp = Fp::new();
    fp.us(d.order());
    for (u, v) in d.arcs() {
        fp.us(u).us(v);
    }
    fp.0
}

pub fn check_tournament<D: Vertices + Arcs + Order + Size>(d: &D, n: usize, o: &mut CaseOut, name: &str) {
    let m = model_of(d);
    let listed: Vec<(usize, usize)> = d.arcs().collect();
    o.check(d.order() == n && m.verts.iter().copied().eq(0..n), &format!("{name}::random_tournament:vertex-set"), || format!("order {} vertices {:?}", d.order(), m.vert_list()));
    o.check(listed.len() == m.size(), &format!("{name}::random_tournament:duplicate-arc-listed"), || format!("{listed:?}"));
    o.check(m.valid() && m.is_tournament() && m.size() == n * (n - 1) / 2 && d.size() == m.size(), &format!("{name}::random_tournament:not-a-tournament"), || crate::ctx::clip(&m.describe()));
}

pub fn check_erdos<D: Vertices + Arcs + Order + Size>(d: &D, n: usize, pr: f64, o: &mut CaseOut, name: &str) {
    let m = model_of(d);
    let listed: Vec<(usize, usize)> = d.arcs().collect();
    o.check(d.order() == n && m.verts.iter().copied().eq(0..n), &format!("{name}::erdos_renyi:vertex-set"), || format!("order {} vertices {:?}", d.order(), m.vert_list()));
    o.check(listed.len() == m.size() && d.size() == m.size(), &format!("{name}::erdos_renyi:duplicate-arc-listed"), || format!("{listed:?}"));
    o.check(listed.iter().all(|&(u, v)| u != v && u < n && v < n), &format!("{name}::erdos_renyi:self-loop-or-outside-endpoint"), || crate::ctx::clip(&m.describe()));
    if pr == 0.0 {
        o.check(m.size() == 0, &format!("{name}::erdos_renyi:arcs-at-p=0"), || crate::ctx::clip(&m.describe()));
    }
    if pr == 1.0 {
        o.check(m.size() == n * (n - 1), &format!("{name}::erdos_renyi:missing-arcs-at-p=1"), || crate::ctx::clip(&m.describe()));
    }
}

fn check_tree<D: Vertices + Arcs + Order>(d: &D, n: usize, o: &mut CaseOut, name: &str) {
    let m = model_of(d);
    o.check(d.order() == n && m.verts.iter().copied().eq(0..n), &format!("{name}::random_recursive_tree:vertex-set"), || format!("order {}", d.order()));
    let ok = m.out(0).is_empty() && (1..n).all(|u| {
        let out = m.out(u);
        out.len() == 1 && out[0] < u
    }) && d.arcs().count() == n - 1;
    o.check(ok, &format!("{name}::random_recursive_tree:shape"), || {
        let bad: Vec<usize> = (1..n).filter(|&u| { let out = m.out(u); !(out.len() == 1 && out[0] < u) }).take(5).collect();
        crate::ctx::clip(&format!("order {n}: vertices without exactly one out-arc to a smaller id: {bad:?} (out-arcs of vertex 0: {:?}); {}", m.out(0), if n <= 64 { m.describe() } else { String::new() }))
    });
}

fn one_type<D>(o: &mut CaseOut, name: &str, n: usize, seed: u64, pr: f64, kind: usize)
where
    D: RandomTournament + RandomRecursiveTree + ErdosRenyi + Vertices + Arcs + Order + Size + Eq,
{
    match kind {
        0 => {
            let d = D::random_tournament(n, seed);
            check_tournament(&d, n, o, name);
            o.check(d == D::random_tournament(n, seed), &format!("{name}::random_tournament:not-repeatable"), || format!("order {n} seed {seed}"));
            o.digest.push((Fp::new().s(name).s("rt").us(n).u(seed).0, arcs_hash(&d), name == "AdjacencyMap"));
        }
        1 => {
            let d = D::random_recursive_tree(n, seed);
            check_tree(&d, n, o, name);
            o.check(d == D::random_recursive_tree(n, seed), &format!("{name}::random_recursive_tree:not-repeatable"), || format!("order {n} seed {seed}"));
            o.digest.push((Fp::new().s(name).s("rrt").us(n).u(seed).0, arcs_hash(&d), false));
        }
        _ => {
            let d = D::erdos_renyi(n, pr, seed);
            check_erdos(&d, n, pr, o, name);
            o.check(d == D::erdos_renyi(n, pr, seed), &format!("{name}::erdos_renyi:not-repeatable"), || format!("order {n} p {pr} seed {seed}"));
            o.digest.push((Fp::new().s(name).s("er").us(n).u(seed).u(pr.to_bits()).0, arcs_hash(&d), name == "AdjacencyMap"));
        }
    }
}

pub fn case(idx: u64, seed: u64, p: &Params, o: &mut CaseOut) {
    let mut r = Rng::for_case(15, seed, idx);
    let max = p.usize("max_order", 257);
    let part = r.below(20);
    if part == 0 {
        // next_f64 lies in [0, 1)
        let (x, y) = (r.next(), r.next());
        let mut s = *r.pick(&[0u64, 1, 1 << 63, u64::MAX, x, y]);
        if r.chance(0.5) {
            // a seed whose first raw output is an extreme value
            let target = *r.pick(&crate::rng::EXTREME_OUTPUTS);
            s = crate::rng::seed_for_first_output(target);
            let first = Xoshiro256StarStar::new(s).next();
            if first == Some(target) {
                o.bump("crafted_seed_hits_target");
            } else {
                // the generator no longer is the published one: only the interval check below applies
                o.bump("crafted_seed_misses_target");
            }
            // p = 1 must give all arcs whatever the draw
            let n = r.range(2, 6);
            let want = n * (n - 1);
            o.check(AdjacencyList::erdos_renyi(n, 1.0, s).size() == want, "AdjacencyList::erdos_renyi:missing-arcs-at-p=1", || format!("order {n} seed {s}"));
            o.check(AdjacencyMatrix::erdos_renyi(n, 1.0, s).size() == want, "AdjacencyMatrix::erdos_renyi:missing-arcs-at-p=1", || format!("order {n} seed {s}"));
            o.check(EdgeList::erdos_renyi(n, 1.0, s).size() == want, "EdgeList::erdos_renyi:missing-arcs-at-p=1", || format!("order {n} seed {s}"));
            o.check(AdjacencyMap::erdos_renyi(n, 1.0, s).size() == want, "AdjacencyMap::erdos_renyi:missing-arcs-at-p=1", || format!("order {n} seed {s}"));
            o.check(AdjacencyList::erdos_renyi(n, 0.0, s).size() == 0 && EdgeList::erdos_renyi(n, 0.0, s).size() == 0, "erdos_renyi:arcs-at-p=0", || format!("order {n} seed {s}"));
        }
        let mut g = Xoshiro256StarStar::new(s);
        let draws = p.usize("draws", 20000);
        let (mut lo, mut hi) = (1.0f64, 0.0f64);
        let mut bad = None;
        for _ in 0..draws {
            let x = g.next_f64();
            if !(0.0..1.0).contains(&x) {
                bad = Some(x);
            }
            lo = lo.min(x);
            hi = hi.max(x);
        }
        o.check(bad.is_none(), "next_f64-outside-[0,1)", || format!("seed {s}: {bad:?}"));
        // two generators with the same seed agree
        let a: Vec<u64> = Xoshiro256StarStar::new(s).take(8).collect();
        let b: Vec<u64> = Xoshiro256StarStar::new(s).take(8).collect();
        o.eq("xoshiro-not-repeatable", &a, &b);
        o.fp = Fp::new().s("f64").u(s).0;
        o.nontrivial = true;
        o.bump("next_f64");
        if o.want_desc {
            o.desc = format!("{draws} draws of next_f64 from seed {s}: min {lo} max {hi}");
        }
        return;
    }
    let n = match r.below(10) {
        0 => 1,
        1 => 2,
        2..=5 => r.range(1, max.min(17)),
        6..=7 => r.range(1, max.min(64)),
        8 => *r.pick(&[31usize, 32, 33, 63, 64, 65]).min(&max),
        _ => *r.pick(&[100usize, 129, 257]).min(&max),
    };
    let (x, y, z) = (r.next(), r.next(), r.next());
    let gseed = *r.pick(&[0u64, 1, 1 << 63, u64::MAX, x, y, z]);
    // large orders, rarely: a recursive tree costs O(n), the two quadratic
    // generators stay below 1300 vertices
    let big_every = p.u64("big_every", 400);
    if big_every > 0 && idx % big_every == 7 && max >= 257 {
        let ty = r.below(4);
        let tree = r.chance(0.7);
        let n = if tree {
            if ty == 2 { *r.pick(&[1000usize, 4097, 6000]) } else { *r.pick(&[5000usize, 20_000, 70_000, 200_000, 500_000]) }
        } else {
            *r.pick(&[300usize, 513, 1000, 1291])
        };
        let pr = *r.pick(&[0.0, 0.01, 0.5, 1.0]);
        let kind = if tree { 1 } else { 2 * r.below(2) };
        match ty {
            0 => one_type::<AdjacencyList>(o, TYPES[0], n, gseed, pr, kind),
            1 => one_type::<AdjacencyMap>(o, TYPES[1], n, gseed, pr, kind),
            2 => one_type::<AdjacencyMatrix>(o, TYPES[2], n, gseed, pr, kind),
            _ => one_type::<EdgeList>(o, TYPES[3], n, gseed, pr, kind),
        }
        let kn = ["random_tournament", "random_recursive_tree", "erdos_renyi"][kind];
        o.fp = Fp::new().s(TYPES[ty]).s(kn).us(n).u(gseed).u(pr.to_bits()).0;
        o.nontrivial = true;
        o.bump("large_order");
        o.bump(TYPES[ty]);
        o.bump(kn);
        o.bumpn("order/16", n / 16);
        if o.want_desc {
            o.desc = format!("{}::{kn}(order {n}, p {pr}, seed {gseed})", TYPES[ty]);
        }
        return;
    }
    let eps = f64::EPSILON;
    let pr = *r.pick(&[0.0, eps, 0.25, 0.5, 0.5 + eps, 0.75, 1.0 - eps, 1.0]);
    let kind = r.below(3);
    let ty = r.below(5);
    let t = std::thread::available_parallelism().map_or(1, |x| x.get());
    match ty {
        0 => one_type::<AdjacencyList>(o, TYPES[0], n, gseed, pr, kind),
        2 => one_type::<AdjacencyMatrix>(o, TYPES[2], n, gseed, pr, kind),
        3 => one_type::<EdgeList>(o, TYPES[3], n, gseed, pr, kind),
        _ => {
            // AdjacencyMap: threaded; hooks and delays on
            hook_begin(p, idx);
            one_type::<AdjacencyMap>(o, TYPES[1], n, gseed, pr, kind);
            let ev = hook_end();
            let site = if kind == 0 { graaf::verif::AM_RANDOM_TOURNAMENT } else { graaf::verif::AM_ERDOS_RENYI };
            if kind != 1 && n > 1 {
                // two calls were made: the log holds two tilings
                let begins: Vec<_> = ev.iter().filter(|e| e.0 == site).copied().collect();
                // check the union as a multiset: every row range must occur exactly twice
                let mut rng: Vec<(usize, usize)> = begins.iter().filter(|e| e.1 == graaf::verif::BEGIN).map(|e| (e.2, e.3)).collect();
                rng.sort_unstable();
                let once: Vec<(u64, u64, usize, usize)> = rng.chunks(2).flat_map(|c| [(site, graaf::verif::BEGIN, c[0].0, c[0].1), (site, graaf::verif::END, c[0].0, c[0].1)]).collect();
                let paired = rng.len() % 2 == 0 && rng.chunks(2).all(|c| c[0] == c[1]);
                // C15/C17 require equal RESULTS of equal calls (judged above), not
                // equal partitions: a different split is recorded, not judged.
                if !paired {
                    o.bump("note: two equal calls partitioned their rows differently");
                }
                if paired {
                    if let Some(tl) = check_tiling(&once, site, n, false, o, if kind == 0 { "AdjacencyMap::random_tournament" } else { "AdjacencyMap::erdos_renyi" }) {
                        o.bumpn("workers", tl.workers);
                        let mut f = Fp::new();
                        for e in ev.iter().filter(|e| e.0 == site) {
                            f.u(e.1).us(e.2);
                        }
                        o.sigs.push((site, f.0));
                    }
                }
            }
        }
    }
    // inadmissible p must panic
    if kind == 2 && r.chance(0.3) {
        let bad = *r.pick(&[-eps, 1.0 + eps, f64::NAN, -1.0, 2.0, f64::INFINITY, f64::NEG_INFINITY]);
        match ty {
            0 => o.must_panic("AdjacencyList::erdos_renyi:no-panic-for-p-outside-[0,1]", || format!("p = {bad}"), || AdjacencyList::erdos_renyi(n, bad, gseed)),
            2 => o.must_panic("AdjacencyMatrix::erdos_renyi:no-panic-for-p-outside-[0,1]", || format!("p = {bad}"), || AdjacencyMatrix::erdos_renyi(n, bad, gseed)),
            3 => o.must_panic("EdgeList::erdos_renyi:no-panic-for-p-outside-[0,1]", || format!("p = {bad}"), || EdgeList::erdos_renyi(n, bad, gseed)),
            _ => o.must_panic("AdjacencyMap::erdos_renyi:no-panic-for-p-outside-[0,1]", || format!("p = {bad}"), || AdjacencyMap::erdos_renyi(n, bad, gseed)),
        };
        o.bump("inadmissible_p");
    }
    let tyname = if ty >= 4 { TYPES[1] } else { TYPES[ty] };
    let kn = ["random_tournament", "random_recursive_tree", "erdos_renyi"][kind];
    o.fp = Fp::new().s(tyname).s(kn).us(n).u(gseed).u(pr.to_bits()).0;
    o.nontrivial = n > t;
    o.bump(tyname);
    o.bump(kn);
    o.bumpn("order/16", n / 16);
    o.bumpn("threads_available", t);
    if o.want_desc {
        o.desc = format!("{tyname}::{kn}(order {n}, p {pr}, seed {gseed}) (available_parallelism {t})");
    }
}
