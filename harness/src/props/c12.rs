//! C12 — structural predicates decide exactly their mathematical definitions.

use crate::ctx::CaseOut;
use crate::events::check_tiling;
use crate::gen;
use crate::model::Model;
use crate::props::c11::{hook_begin, hook_end};
use crate::reprs::*;
use crate::rng::{Fp, Rng};
use crate::Params;
use graaf::*;

fn preds<D>(d: &D, m: &Model, o: &mut CaseOut, name: &str)
where
    D: IsComplete + IsSemicomplete + IsTournament + IsRegular + IsBalanced + IsSymmetric + IsOriented + IsSimple,
{
    o.eq(&format!("{name}::is_complete"), &d.is_complete(), &m.is_complete());
    o.eq(&format!("{name}::is_semicomplete"), &d.is_semicomplete(), &m.is_semicomplete());
    o.eq(&format!("{name}::is_tournament"), &d.is_tournament(), &m.is_tournament());
    o.eq(&format!("{name}::is_regular"), &d.is_regular(), &m.is_regular());
    o.eq(&format!("{name}::is_balanced"), &d.is_balanced(), &m.is_balanced());
    o.eq(&format!("{name}::is_symmetric"), &d.is_symmetric(), &m.is_symmetric());
    o.eq(&format!("{name}::is_oriented"), &d.is_oriented(), &m.is_oriented());
    o.eq(&format!("{name}::is_simple"), &d.is_simple(), &true);
}

fn pair<D>(h: &D, d: &D, mh: &Model, md: &Model, o: &mut CaseOut, name: &str)
where
    D: IsSubdigraph + IsSuperdigraph + IsSpanningSubdigraph,
{
    o.eq(&format!("{name}::is_subdigraph"), &h.is_subdigraph(d), &mh.is_subdigraph_of(md));
    o.eq(&format!("{name}::is_subdigraph(rev)"), &d.is_subdigraph(h), &md.is_subdigraph_of(mh));
    o.eq(&format!("{name}::is_superdigraph"), &d.is_superdigraph(h), &mh.is_subdigraph_of(md));
    o.eq(&format!("{name}::is_superdigraph(rev)"), &h.is_superdigraph(d), &md.is_subdigraph_of(mh));
    o.eq(&format!("{name}::is_spanning_subdigraph"), &h.is_spanning_subdigraph(d), &mh.is_spanning_subdigraph_of(md));
    o.eq(&format!("{name}::is_spanning_subdigraph(rev)"), &d.is_spanning_subdigraph(h), &md.is_spanning_subdigraph_of(mh));
    o.eq(&format!("{name}::is_subdigraph(self)"), &d.is_subdigraph(d), &true);
    o.eq(&format!("{name}::is_spanning_subdigraph(self)"), &d.is_spanning_subdigraph(d), &true);
}

/// H derived from D: delete arcs / a top vertex, add one arc, change order.
fn derive(r: &mut Rng, d: &Model) -> Model {
    let mut h = d.clone();
    let n = d.n();
    match r.below(9) {
        0 => {}
        7 | 8 => {
            // neither a sub- nor a superdigraph: delete some arcs AND add one or
            // two that D doesn't have, with a bias towards the two ends of the
            // lexicographic arc order (a scan or merge over sorted arcs is most
            // fragile where one side runs out)
            let keys = h.arc_list();
            let (first, last) = (keys.first().copied(), keys.last().copied());
            for a in &keys {
                let end = Some(*a) == first || Some(*a) == last;
                if r.chance(if end { 0.1 } else { 0.35 }) {
                    h.remove(a.0, a.1);
                }
            }
            if n >= 2 {
                let absent: Vec<(usize, usize)> = (0..n).flat_map(|u| (0..n).map(move |v| (u, v))).filter(|&(u, v)| u != v && !d.has(u, v)).collect();
                for _ in 0..r.range(1, 2) {
                    if absent.is_empty() {
                        break;
                    }
                    let after: Vec<(usize, usize)> = absent.iter().copied().filter(|a| last.is_none_or(|l| *a > l)).collect();
                    let before: Vec<(usize, usize)> = absent.iter().copied().filter(|a| first.is_none_or(|f| *a < f)).collect();
                    let a = match r.below(4) {
                        0 | 1 if !after.is_empty() => *r.pick(&after),
                        2 if !before.is_empty() => *r.pick(&before),
                        _ => *r.pick(&absent),
                    };
                    h.add(a.0, a.1, 1);
                }
            }
        }
        1 | 2 => {
            // delete some arcs
            let keys = h.arc_list();
            for a in keys {
                if r.chance(0.4) {
                    h.remove(a.0, a.1);
                }
            }
        }
        3 => {
            // drop the last vertex (stays contiguous)
            if n >= 2 {
                h = d.induced(|v| v != n - 1);
            }
        }
        4 => {
            // add one arc that D doesn't have
            if n >= 2 {
                let u = r.below(n);
                let v = (u + 1 + r.below(n - 1)) % n;
                h.add(u, v, 1);
            }
        }
        5 => {
            // one more (isolated) vertex, same arcs
            h.verts.insert(n);
        }
        _ => {
            // delete arcs and one more vertex
            let keys = h.arc_list();
            for a in keys {
                if r.chance(0.5) {
                    h.remove(a.0, a.1);
                }
            }
            h.verts.insert(n);
        }
    }
    h
}

/// Non-contiguous derivation: drop an arbitrary vertex.
fn derive_sparse(r: &mut Rng, d: &Model) -> Model {
    let vs = d.vert_list();
    match r.below(7) {
        0 if vs.len() >= 2 => {
            let x = *r.pick(&vs);
            d.induced(|v| v != x)
        }
        4 | 5 if vs.len() >= 2 => {
            // same or smaller cardinality, but a vertex that D doesn't have
            let x = *r.pick(&vs);
            let mut h = d.induced(|v| v != x);
            if r.chance(0.5) {
                let y = *r.pick(&vs);
                h = h.induced(|v| v != y);
            }
            let mut fresh = vs.iter().max().unwrap().wrapping_add(1 + r.below(3));
            if r.chance(0.5) {
                // an id in a gap of V(D)
                if let Some(g) = (0..*vs.iter().max().unwrap()).find(|g| !d.verts.contains(g)) {
                    fresh = g;
                }
            }
            h.verts.insert(fresh);
            if r.chance(0.5) {
                let keys = h.arc_list();
                for a in keys {
                    if r.chance(0.5) {
                        h.remove(a.0, a.1);
                    }
                }
            }
            h
        }
        6 => {
            // unrelated digraph on overlapping ids
            let n = r.range(1, vs.len() + 1);
            let m0 = gen::random_arcs(r, n, 0.3);
            gen::sparsify(r, &m0)
        }
        1 => {
            let mut h = d.clone();
            let keys = h.arc_list();
            for a in keys {
                if r.chance(0.4) {
                    h.remove(a.0, a.1);
                }
            }
            h
        }
        2 => {
            let mut h = d.clone();
            h.verts.insert(vs.iter().max().unwrap().wrapping_add(1 + r.below(3)));
            h
        }
        _ => d.clone(),
    }
}

pub const TYPES: [&str; 7] = [
    "AdjacencyList",
    "AdjacencyMap",
    "AdjacencyMap(non-contiguous)",
    "AdjacencyMatrix",
    "EdgeList",
    "AdjacencyListWeighted<usize>",
    "AdjacencyListWeighted<isize>",
];

/// Several caller threads ask is_semicomplete / is_tournament at the same
/// time, each about its own dense digraph (orders below and above 64).
fn concurrent_predicates(r: &mut Rng, o: &mut CaseOut, max: usize) {
    let callers = r.range(2, 4);
    let models: Vec<Model> = (0..callers)
        .map(|_| {
            let n = (*r.pick(&[5usize, 17, 40, 64, 65, 80, 100])).min(max);
            gen::family(r, 16, n) // near_boundary: dense, the answer hinges on one pair
        })
        .collect();
    let bad: Vec<String> = std::thread::scope(|s| {
        let hs: Vec<_> = models
            .iter()
            .enumerate()
            .map(|(t, m)| {
                s.spawn(move || {
                    let d = AdjacencyList::build(m);
                    let (ws, wt, wc) = (m.is_semicomplete(), m.is_tournament(), m.is_complete());
                    let mut bad = Vec::new();
                    for rep in 0..6 {
                        if d.is_semicomplete() != ws || d.is_tournament() != wt || d.is_complete() != wc {
                            bad.push(format!("caller {t} repetition {rep}: wrong answer for order {} ({} arcs); definitions say semicomplete {ws} tournament {wt} complete {wc}", m.n(), m.size()));
                        }
                    }
                    bad
                })
            })
            .collect();
        hs.into_iter().flat_map(|h| h.join().unwrap_or_else(|_| vec!["a caller thread panicked".to_string()])).collect()
    });
    o.check(bad.is_empty(), "AdjacencyList::is_semicomplete:wrong-with-concurrent-callers", || crate::ctx::clip(&bad.join(" | ")));
    o.bump("concurrent_callers");
    o.fp = Fp::new().s("conc").us(callers).us(models[0].n()).us(models[0].size()).0;
    o.nontrivial = true;
    if o.want_desc {
        o.desc = format!("{callers} threads call AdjacencyList::is_semicomplete/is_tournament/is_complete at the same time on digraphs of orders {:?}", models.iter().map(Model::n).collect::<Vec<_>>());
    }
}

pub fn case(idx: u64, seed: u64, p: &Params, o: &mut CaseOut) {
    let mut r = Rng::for_case(12, seed, idx);
    if p.usize("concurrent", 1) == 1 && idx % 32 == 7 && p.usize("kind", usize::MAX) == usize::MAX {
        concurrent_predicates(&mut r, o, p.usize("max_order", 100).max(5));
        return;
    }
    let max = p.usize("max_order", 40);
    let only = p.usize("kind", usize::MAX);
    let kind = if only < TYPES.len() { only } else { *r.pick(&[0usize, 0, 0, 1, 2, 2, 3, 4, 5, 6]) };
    // boundary families are prominent
    let fam = match r.below(10) {
        0..=3 => 16,           // near_boundary
        4 => 9,                // tournament
        5 => 15,               // circulant (regular) +- 1 arc
        6 => 17,               // symmetric +- 1 arc
        7 => 2,                // complete
        _ => r.below(gen::FAMILIES.len()),
    };
    let n = match r.below(10) {
        0..=5 => r.range(1, max.min(8)),
        6..=7 => r.range(1, max.min(20)),
        _ => r.range(1, max),
    };
    let mut md = gen::family(&mut r, fam, n);
    let mut mh = derive(&mut r, &md);
    let name = TYPES[kind];
    match kind {
        0 => {
            let (d, h) = (AdjacencyList::build(&md), AdjacencyList::build(&mh));
            preds(&d, &md, o, name);
            // the parallel is_semicomplete, once more under the tiling monitor
            hook_begin(p, idx);
            let got = d.is_semicomplete();
            let ev = hook_end();
            o.eq("AdjacencyList::is_semicomplete(hooked)", &got, &md.is_semicomplete());
            if let Some(t) = check_tiling(&ev, graaf::verif::AL_IS_SEMICOMPLETE, md.n(), false, o, "AdjacencyList::is_semicomplete") {
                o.sigs.push((graaf::verif::AL_IS_SEMICOMPLETE, t.signature));
                o.bumpn("workers", t.workers);
            }
            preds(&h, &mh, o, name);
            pair(&h, &d, &mh, &md, o, name);
        }
        1 => {
            let (d, h) = (AdjacencyMap::build(&md), AdjacencyMap::build(&mh));
            preds(&d, &md, o, name);
            preds(&h, &mh, o, name);
            pair(&h, &d, &mh, &md, o, name);
        }
        2 => {
            md = gen::sparsify(&mut r, &md);
            if r.chance(0.12) {
                md = gen::with_max_id(&md);
                o.bump("vertex_id_usize::MAX");
            }
            mh = derive_sparse(&mut r, &md);
            let (d, h) = (build_map_any(&md), build_map_any(&mh));
            preds(&d, &md, o, name);
            preds(&h, &mh, o, name);
            pair(&h, &d, &mh, &md, o, name);
        }
        3 => {
            let (d, h) = (AdjacencyMatrix::build(&md), AdjacencyMatrix::build(&mh));
            preds(&d, &md, o, name);
            preds(&h, &mh, o, name);
            pair(&h, &d, &mh, &md, o, name);
        }
        4 => {
            let (d, h) = (EdgeList::build(&md), EdgeList::build(&mh));
            preds(&d, &md, o, name);
            preds(&h, &mh, o, name);
            pair(&h, &d, &mh, &md, o, name);
        }
        5 => {
            let (d, h) = (build_w_usize(&md), build_w_usize(&mh));
            preds(&d, &md, o, name);
            preds(&h, &mh, o, name);
            pair(&h, &d, &mh, &md, o, name);
        }
        _ => {
            gen::weights(&mut r, &mut md, gen::WClass::MixedNeg);
            gen::weights(&mut r, &mut mh, gen::WClass::MixedNeg);
            let (d, h) = (build_w_isize(&md), build_w_isize(&mh));
            preds(&d, &md, o, name);
            preds(&h, &mh, o, name);
            pair(&h, &d, &mh, &md, o, name);
        }
    }
    let nn = md.n();
    let mut fp = Fp::new();
    fp.us(kind);
    md.fingerprint(&mut fp);
    mh.fingerprint(&mut fp);
    o.fp = fp.0;
    // the implementation's size shortcut is satisfied, so the pair scan decides
    o.nontrivial = md.size() >= nn * nn.saturating_sub(1) / 2 || md.n() != mh.n();
    o.bump(name);
    o.bump(gen::FAMILIES[fam]);
    for (k, v) in [
        ("true:is_complete", md.is_complete()),
        ("true:is_semicomplete", md.is_semicomplete()),
        ("true:is_tournament", md.is_tournament()),
        ("true:is_regular", md.is_regular()),
        ("true:is_balanced", md.is_balanced()),
        ("true:is_symmetric", md.is_symmetric()),
        ("true:is_oriented", md.is_oriented()),
        ("true:H_subdigraph_of_D", mh.is_subdigraph_of(&md)),
        ("true:H_spanning_subdigraph_of_D", mh.is_spanning_subdigraph_of(&md)),
    ] {
        if v {
            o.bump(k);
        }
    }
    if o.want_desc {
        o.desc = format!("{name} family={} D: {} | H: {}", gen::FAMILIES[fam], md.describe(), mh.describe());
    }
}
