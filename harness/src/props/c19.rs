//! C19 — PredecessorTree search follows predecessor links exactly and always
//! terminates.

use crate::ctx::CaseOut;
use crate::rng::{Fp, Rng};
use crate::Params;
use graaf::*;
use std::cell::Cell;

/// (n+1)^n vectors of length n, n = 1..=max
pub fn count_upto(max: usize) -> u64 {
    (1..=max).map(|n| ((n + 1) as u64).pow(n as u32)).sum()
}

fn decode(mut idx: u64) -> Vec<Option<usize>> {
    let mut n = 1usize;
    loop {
        let c = ((n + 1) as u64).pow(n as u32);
        if idx < c {
            break;
        }
        idx -= c;
        n += 1;
    }
    let mut v = Vec::with_capacity(n);
    for _ in 0..n {
        let d = (idx % (n as u64 + 1)) as usize;
        idx /= n as u64 + 1;
        v.push(if d == 0 { None } else { Some(d - 1) });
    }
    v
}

/// The functional-graph walk: first vertex on the chain from s satisfying the
/// predicate before the chain ends or revisits a vertex.
fn reference(pred: &[Option<usize>], s: usize, f: &dyn Fn(usize, Option<usize>) -> bool) -> Option<Vec<usize>> {
    let mut seen = vec![false; pred.len()];
    let mut path = Vec::new();
    let mut cur = s;
    loop {
        if seen[cur] {
            return None;
        }
        seen[cur] = true;
        path.push(cur);
        if f(cur, pred[cur]) {
            return Some(path);
        }
        match pred[cur] {
            Some(v) => cur = v,
            None => return None,
        }
    }
}

fn check_one(o: &mut CaseOut, tree: &PredecessorTree, pred: &[Option<usize>], s: usize, name: &str, f: &dyn Fn(usize, Option<usize>) -> bool) -> bool {
    let n = pred.len();
    let evals = Cell::new(0usize);
    let bound = 2 * n + 4;
    let got = crate::ctx::catch(|| {
        tree.search_by(s, |&v, &p| {
            evals.set(evals.get() + 1);
            if evals.get() > bound {
                panic!("harness: evaluation bound exceeded");
            }
            f(v, p)
        })
    });
    let want = reference(pred, s, f);
    match got {
        Err(pn) if pn.msg.contains("evaluation bound exceeded") => {
            o.check(false, "search_by-does-not-terminate", || format!("more than {bound} predicate evaluations: pred {pred:?} s {s} predicate {name}"));
            false
        }
        Err(pn) => {
            o.check(false, "search_by-panicked", || format!("{} at {}: pred {pred:?} s {s} predicate {name}", pn.msg, pn.loc));
            false
        }
        Ok(g) => {
            o.check(g == want, "search_by", || format!("pred {pred:?} s {s} predicate {name}: got {g:?} want {want:?}"));
            true
        }
    }
}

/// The same predecessor vector reached in three ways: From<Vec>, new(n) then
/// IndexMut, or a shorter tree whose public `pred` field is then grown.
fn build_tree(pred: &[Option<usize>], how: usize) -> PredecessorTree {
    let n = pred.len();
    match how % 3 {
        0 => PredecessorTree::from(pred.to_vec()),
        1 => {
            let mut t = PredecessorTree::new(n);
            for (v, &p) in pred.iter().enumerate() {
                crate::ctx::via_graaf(|| t[v] = p);
            }
            t
        }
        _ => {
            let k = (how / 3) % n.max(1);
            let mut t = PredecessorTree::from(pred[..k.max(1).min(n)].to_vec());
            t.pred.truncate(k.min(n));
            t.pred.extend_from_slice(&pred[k.min(n)..]);
            t
        }
    }
}

/// A predicate that itself searches another tree (re-entrant use). Runs on a
/// helper thread: if it has not finished after 30 s of wall-clock the search
/// is deadlocked (a tiny vector takes microseconds).
fn reentrant(o: &mut CaseOut, pred: &[Option<usize>]) {
    use std::sync::mpsc::channel;
    let n = pred.len();
    let p1 = pred.to_vec();
    let (tx, rx) = channel();
    let h = std::thread::spawn(move || {
        let a = PredecessorTree::from(p1.clone());
        let b = PredecessorTree::from(p1.clone());
        let mut out = Vec::new();
        for s in 0..n.min(3) {
            let t = n - 1;
            let got = a.search_by(s, |&v, _| b.search(v, t).is_some());
            out.push((s, got));
        }
        let _ = tx.send(out);
    });
    match rx.recv_timeout(std::time::Duration::from_secs(30)) {
        Ok(out) => {
            let _ = h.join();
            for (s, got) in out {
                let t = n - 1;
                let want = reference(pred, s, &|v, _| reference(pred, v, &|x, _| x == t).is_some());
                o.check(got == want, "search_by(re-entrant predicate)", || format!("pred {pred:?} s {s}: got {got:?} want {want:?}"));
            }
        }
        Err(_) => {
            o.check(false, "search_by-does-not-terminate(re-entrant predicate)", || {
                format!("a predicate that searches another tree did not return within 30 s: pred {pred:?}")
            });
            // the helper thread stays blocked; nothing after this case can be trusted
            crate::ctx::request_stop();
        }
    }
}

type Job = (PredecessorTree, Vec<usize>, Vec<usize>);
type Answers = Vec<Result<Option<Vec<usize>>, String>>;

/// One long-lived helper thread per process answers all plain `search` calls
/// (spawning a thread per vector costs more than the searches). `None` = no
/// answer within 30 s; the helper is then lost and the shard is stopped.
type Helper = (std::sync::mpsc::Sender<Job>, std::sync::mpsc::Receiver<Answers>, std::thread::JoinHandle<()>);
static HELPER: std::sync::Mutex<Option<Helper>> = std::sync::Mutex::new(None);

fn plain_searches(tree: &PredecessorTree, starts: &[usize], targets: &[usize]) -> Option<Answers> {
    use std::sync::mpsc::channel;
    let mut g = HELPER.lock().unwrap_or_else(|e| e.into_inner());
    if g.is_none() {
        let (jtx, jrx) = channel::<Job>();
        let (atx, arx) = channel::<Answers>();
        let h = std::thread::spawn(move || {
            while let Ok((t, st, tg)) = jrx.recv() {
                let mut out = Vec::with_capacity(st.len() * tg.len());
                for &s in &st {
                    for &x in &tg {
                        out.push(crate::ctx::catch(|| t.search(s, x)).map_err(|p| format!("{} at {}", p.msg, p.loc)));
                    }
                }
                if atx.send(out).is_err() {
                    break;
                }
            }
        });
        *g = Some((jtx, arx, h));
    }
    let (jtx, arx, _) = g.as_ref().expect("harness: helper just created");
    jtx.send((tree.clone(), starts.to_vec(), targets.to_vec())).ok()?;
    arx.recv_timeout(std::time::Duration::from_secs(30)).ok()
}

/// End the helper thread before the process exits (Miri and the leak checkers
/// insist that no thread is left behind). A helper that is stuck inside a
/// non-terminating search cannot be joined; the shard has then already
/// reported that as a violation.
pub fn shutdown_helper() {
    let taken = HELPER.lock().unwrap_or_else(|e| e.into_inner()).take();
    if let Some((jtx, _arx, h)) = taken {
        drop(jtx);
        if !crate::ctx::stop_requested() {
            let _ = h.join();
        }
    }
}

fn check_vector(o: &mut CaseOut, pred: &[Option<usize>], starts: &[usize], targets: &[usize]) {
    let n = pred.len();
    let how = pred.iter().map(|p| p.map_or(1, |v| v + 2)).sum::<usize>();
    let tree = build_tree(pred, how);
    o.check(tree.pred == pred, "tree-construction", || format!("{:?} vs {pred:?}", tree.pred));
    if how % 4 == 1 {
        // the other public views of the vector: Index, IntoIterator (owned and borrowed)
        let by_index: Vec<Option<usize>> = crate::ctx::via_graaf(|| (0..n).map(|v| tree[v]).collect());
        let owned: Vec<Option<usize>> = tree.clone().into_iter().collect();
        o.check(by_index == pred && owned == pred, "tree-views-disagree", || format!("index {by_index:?} into_iter {owned:?} vs {pred:?}"));
    }
    if how % 64 == 3 {
        reentrant(o, pred);
        if crate::ctx::stop_requested() {
            // a search is blocked inside the code under test: do not call it again from this thread
            return;
        }
    }
    // `search` takes no predicate of ours, so its steps cannot be counted: all
    // its calls for this vector run on a helper thread and must come back within
    // 30 s of wall-clock (a vector of at most 64 entries takes microseconds).
    let plain = match plain_searches(&tree, starts, targets) {
        Some(v) => v,
        None => {
            o.check(false, "search-does-not-terminate", || format!("no answer after 30 s: pred {pred:?} starts {starts:?} targets {targets:?}"));
            crate::ctx::request_stop();
            return;
        }
    };
    let mut plain = plain.into_iter();
    for &s in starts {
        for &t in targets {
            let a = plain.next().expect("harness: one answer per pair");
            if !check_one(o, &tree, pred, s, &format!("v == {t}"), &|v, _| v == t) {
                return;
            }
            let a = match a {
                Ok(a) => a,
                Err(why) => {
                    o.check(false, "search-panicked", || format!("{why}: pred {pred:?} s {s} t {t}"));
                    return;
                }
            };
            let b = tree.search_by(s, |&v, _| v == t);
            o.check(a == b, "search-differs-from-search_by", || format!("pred {pred:?} s {s} t {t}: {a:?} vs {b:?}"));
        }
        let k = n / 2;
        if !check_one(o, &tree, pred, s, "pred.is_none()", &|_, p| p.is_none())
            || !check_one(o, &tree, pred, s, &format!("v > {k}"), &|v, _| v > k)
            || !check_one(o, &tree, pred, s, "never", &|_, _| false)
            || !check_one(o, &tree, pred, s, "always", &|_, _| true)
            || !check_one(o, &tree, pred, s, "pred == Some(v) (self-reference)", &|v, p| p == Some(v))
        {
            return;
        }
    }
}

fn has_cycle_from(pred: &[Option<usize>], s: usize) -> bool {
    reference(pred, s, &|_, _| false).is_none() && {
        // distinguish "chain ended" from "revisited"
        let mut seen = vec![false; pred.len()];
        let mut cur = s;
        loop {
            if seen[cur] {
                return true;
            }
            seen[cur] = true;
            match pred[cur] {
                Some(v) => cur = v,
                None => return false,
            }
        }
    }
}

pub fn case(idx: u64, seed: u64, p: &Params, o: &mut CaseOut) {
    let ex = count_upto(p.usize("exhaustive_len", 5));
    let mut fp = Fp::new();
    if idx < ex {
        let pred = decode(idx);
        let n = pred.len();
        let all: Vec<usize> = (0..n).collect();
        check_vector(o, &pred, &all, &all);
        for x in &pred {
            fp.us(x.map_or(0, |v| v + 1));
        }
        fp.us(n);
        o.fp = fp.0;
        o.nontrivial = (0..n).any(|s| has_cycle_from(&pred, s));
        o.bumpn("exhaustive_len", n);
        if o.want_desc {
            o.desc = format!("pred {pred:?}: all starts x all targets and 5 predicates");
        }
        return;
    }
    // random long vectors: long tails, rho shapes, self-references
    let mut r = Rng::for_case(19, seed, idx);
    let n = r.range(7, p.usize("max_len", 300));
    let shape = r.below(5);
    let mut pred: Vec<Option<usize>> = vec![None; n];
    match shape {
        0 => {
            for (v, pv) in pred.iter_mut().enumerate() {
                *pv = if r.chance(0.1) { None } else { Some(r.below(n)) };
                if r.chance(0.05) {
                    *pv = Some(v);
                }
            }
        }
        1 => {
            // one long chain through a random permutation, ending in None
            let mut perm: Vec<usize> = (0..n).collect();
            r.shuffle(&mut perm);
            for i in 0..n - 1 {
                pred[perm[i]] = Some(perm[i + 1]);
            }
        }
        2 => {
            // rho: a tail entering a cycle
            let mut perm: Vec<usize> = (0..n).collect();
            r.shuffle(&mut perm);
            for i in 0..n - 1 {
                pred[perm[i]] = Some(perm[i + 1]);
            }
            let back = r.below(n);
            pred[perm[n - 1]] = Some(perm[back]);
        }
        3 => {
            // a forest (proper predecessor tree)
            for v in 1..n {
                pred[v] = Some(r.below(v));
            }
        }
        _ => {
            // everything points at one self-referential vertex
            let c = r.below(n);
            for pv in pred.iter_mut() {
                *pv = Some(c);
            }
        }
    }
    let starts: Vec<usize> = (0..4).map(|_| r.below(n)).collect();
    let targets: Vec<usize> = (0..4).map(|_| r.below(n)).collect();
    check_vector(o, &pred, &starts, &targets);
    for x in &pred {
        fp.us(x.map_or(0, |v| v + 1));
    }
    o.fp = fp.0;
    o.nontrivial = starts.iter().any(|&s| has_cycle_from(&pred, s));
    o.bumpn("random_shape", shape);
    if o.want_desc {
        o.desc = format!("random shape {shape} length {n} starts {starts:?} targets {targets:?} pred {pred:?}");
    }
}
