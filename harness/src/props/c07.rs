//! C07 — Bellman-Ford-Moore: exact distances, or None on a reachable negative
//! circuit.

use crate::ctx::CaseOut;
use crate::gen::{self, WClass};
use crate::model::Model;
use crate::reprs::*;
use crate::rng::{Fp, Rng};
use crate::Params;
use graaf::*;

pub const WFAMS: [&str; 6] = ["non_negative", "potentials", "negative_dag", "planted_neg_circuit", "mixed_negative", "large_magnitude"];

/// A weighted digraph with isize weights. Returns (model, weight family).
pub fn gen_case(r: &mut Rng, max: usize, allow_neg_circuit: bool) -> (Model, &'static str, &'static str) {
    if r.below(64) == 0 {
        let m = if r.chance(0.7) { gen::fixture_weighted_isize(r) } else { gen::fixture_weighted(r) };
        return (m, "repo_fixture_weighted", "repo_fixture_weighted");
    }
    if r.below(40) == 0 {
        // Legal weights of magnitude 2^62: positions alternate between
        // potential ~0 and ~+2^62 along a forward DAG, so every walk weight
        // (and every sum of two distances) stays within +-(2^62 + small).
        const H: i64 = 1 << 62;
        let n = r.range(2, max.clamp(2, 10));
        let mut ids: Vec<usize> = (0..n).collect();
        r.shuffle(&mut ids);
        let mut m = Model::new(n);
        for i in 0..n {
            for j in (i + 1)..n {
                let chain = j == i + 1;
                if !(chain || r.chance(0.3)) {
                    continue;
                }
                let w = match (i % 2, j % 2) {
                    (0, 1) => H + r.irange(0, 20),
                    (1, 0) => -H + r.irange(0, 20),
                    _ => r.irange(0, 20),
                };
                m.add(ids[i], ids[j], w);
            }
        }
        return (m, "magnitude_2^62_alternating", "dag");
    }
    if r.below(40) == 0 {
        // Distances more than isize::MAX apart although every walk weight
        // fits: one root, a "high" group at about +2^62 and a "low" group at
        // about -2^62, arcs root->high, root->low, high->high, high->low and
        // low->low only (acyclic along a fixed order inside each group), so the
        // longest walk weighs at most 2^62 + small in absolute value.
        const H: i64 = 1 << 62;
        let n = r.range(3, max.clamp(3, 10));
        let mut ids: Vec<usize> = (0..n).collect();
        r.shuffle(&mut ids);
        let k = r.range(1, n - 2); // high group: positions 1..=k, low group: k+1..n
        let mut m = Model::new(n);
        for j in 1..n {
            if j == 1 || j == k + 1 || r.chance(0.6) {
                let w = if j <= k { H - r.irange(0, 20) } else { -H - r.irange(0, 20) };
                m.add(ids[0], ids[j], w);
            }
        }
        for i in 1..n {
            for j in (i + 1)..n {
                if r.chance(0.5) {
                    m.add(ids[i], ids[j], r.irange(-3, 20));
                }
            }
        }
        return (m, "distances_2^63_apart", "dag");
    }
    let wf = r.below(WFAMS.len());
    let n = if r.chance(0.3) { gen::algo_order(r, max, 65) } else { gen::small_order(r, max) };
    let big = n > max;
    let (fam, mut m);
    match WFAMS[wf] {
        "negative_dag" => {
            fam = *r.pick(&[10usize, 11, 12, 3]);
            m = gen::family(r, fam, n);
            gen::weights(r, &mut m, WClass::NegDag);
        }
        "potentials" => {
            fam = if big { gen::sparse_family(r) } else { r.below(gen::FAMILIES.len()) };
            m = gen::family(r, fam, n);
            gen::weights(r, &mut m, WClass::Potentials);
        }
        "planted_neg_circuit" if allow_neg_circuit => {
            fam = if big { gen::sparse_family(r) } else { r.below(gen::FAMILIES.len()) };
            m = gen::family(r, fam, n);
            gen::weights(r, &mut m, WClass::Small);
            // plant a circuit of negative total weight on 2..4 vertices
            if n >= 2 {
                let k = r.range(2, n.min(4));
                let mut ids: Vec<usize> = (0..n).collect();
                r.shuffle(&mut ids);
                for i in 0..k {
                    let w = if i == 0 { -r.irange(1, 30) } else { r.irange(0, 2) };
                    m.add(ids[i], ids[(i + 1) % k], w);
                }
                // sometimes cut it off from the rest so that it is unreachable from most sources
                if r.chance(0.5) {
                    let members: Vec<usize> = ids[..k].to_vec();
                    let cut: Vec<(usize, usize)> = m.arc_list().into_iter().filter(|&(u, v)| !members.contains(&u) && members.contains(&v)).collect();
                    for (u, v) in cut {
                        m.remove(u, v);
                    }
                }
            }
        }
        "mixed_negative" if allow_neg_circuit => {
            fam = if big { gen::sparse_family(r) } else { r.below(gen::FAMILIES.len()) };
            m = gen::family(r, fam, n);
            gen::weights(r, &mut m, WClass::MixedNeg);
        }
        "large_magnitude" => {
            fam = *r.pick(&[10usize, 11, 12, 13, 3]);
            m = gen::family(r, fam, n);
            // acyclic families: any sign is fine
            let keys = m.arc_list();
            for a in keys {
                let w = r.irange(-1_000_000, 1_000_000);
                m.arcs.insert(a, w);
            }
        }
        _ => {
            fam = if big { gen::sparse_family(r) } else { r.below(gen::FAMILIES.len()) };
            m = gen::family(r, fam, n);
            let wc = *r.pick(&[WClass::Unit, WClass::ZeroOne, WClass::Small, WClass::Large]);
            gen::weights(r, &mut m, wc);
        }
    }
    // force the arc count through every residue mod 4
    let want = r.below(4);
    let mut guard = 0;
    while m.size() % 4 != want && m.size() > 0 && guard < 4 {
        let k = r.below(m.size());
        let a = *m.arcs.keys().nth(k).unwrap();
        m.remove(a.0, a.1);
        guard += 1;
    }
    (m, WFAMS[wf], gen::FAMILIES[fam])
}

pub fn ref_row(m: &Model, s: usize) -> Result<Vec<isize>, ()> {
    let d = m.dist_from(&[s])?;
    Ok((0..m.n()).map(|v| d.get(&v).map_or(isize::MAX, |&x| x as isize)).collect())
}

pub fn case(idx: u64, seed: u64, p: &Params, o: &mut CaseOut) {
    let mut r = Rng::for_case(7, seed, idx);
    let (m, wf, fam) = gen_case(&mut r, p.usize("max_order", 14), true);
    let n = m.n();
    let k = isize_scale(&mut r, &m);
    let d = if k > 1 {
        build_w_isize_scaled(&m, k)
    } else if r.chance(0.5) {
        build_w_isize(&m)
    } else {
        build_w_isize_alt(&m)
    };
    let any_neg_circuit = m.has_negative_circuit();
    let nonneg = m.arcs.values().all(|&w| w >= 0);
    let mut neg_reach = false;
    let (mut n_none, mut n_some, mut n_either) = (0, 0, 0);
    for s in 0..n {
        let reach = m.reach(&[s]);
        if m.arcs.iter().any(|(&(u, _), &w)| w < 0 && reach.contains(&u)) {
            neg_reach = true;
        }
        let want = ref_row(&m, s).map(|row| row.into_iter().map(|x| if x == isize::MAX { x } else { x * k }).collect::<Vec<isize>>());
        let mut bfm = BellmanFordMoore::new(&d, s);
        let got: Option<Vec<isize>> = bfm.distances().map(<[isize]>::to_vec);
        // Asking the same object again, or a clone of it, must give the same
        // answer. Only with unscaled weights: a second call relaxes a
        // negative circuit for another n-1 rounds, which leaves the range the
        // scale factor was computed for (values would wrap).
        {
            // clone_from of a fresh solver into a solver for another digraph of the same order
            let other = AdjacencyListWeighted::<isize>::empty(n);
            let mut x = BellmanFordMoore::new(&other, (s + 1) % n);
            x.clone_from(&BellmanFordMoore::new(&d, s));
            let via: Option<Vec<isize>> = x.distances().map(<[isize]>::to_vec);
            o.check(via == got, "distances-differ-after-clone_from", || format!("source {s}: direct {got:?} via clone_from {via:?}"));
        }
        if k == 1 {
            let mut cl = bfm.clone();
            let again: Option<Vec<isize>> = bfm.distances().map(<[isize]>::to_vec);
            o.check(again == got, "distances-differ-on-second-call", || format!("source {s}: first {got:?} second {again:?}"));
            let cloned: Option<Vec<isize>> = cl.distances().map(<[isize]>::to_vec);
            o.check(cloned == got, "distances-differ-on-a-clone", || format!("source {s}: first {got:?} clone {cloned:?}"));
            if got.is_some() {
                // a third and a fourth call, and a clone taken from the used
                // object (only without a negative circuit: with one, every
                // further call relaxes it further, towards overflow)
                let mut used = bfm.clone();
                for nth in 3..=4 {
                    let later: Option<Vec<isize>> = bfm.distances().map(<[isize]>::to_vec);
                    o.check(later == got, "distances-differ-on-a-later-call", || format!("source {s}: first {got:?} call {nth}: {later:?}"));
                }
                let via_used: Option<Vec<isize>> = used.distances().map(<[isize]>::to_vec);
                o.check(via_used == got, "distances-differ-on-a-clone-of-a-used-object", || format!("source {s}: first {got:?} clone of used {via_used:?}"));
            }
        }
        match (&want, &got) {
            (Err(()), Some(g)) => {
                o.check(false, "Some-although-a-negative-circuit-is-reachable", || format!("source {s}: returned {g:?}"));
            }
            (Err(()), None) => {
                o.comparisons += 1;
                n_none += 1;
            }
            (Ok(w), None) => {
                if any_neg_circuit {
                    // a negative circuit exists but is not reachable from s: the statement admits both answers
                    n_either += 1;
                } else {
                    o.check(false, "None-although-there-is-no-negative-circuit", || format!("source {s}: reference distances {w:?}"));
                }
            }
            (Ok(w), Some(g)) => {
                n_some += 1;
                o.check(g == w, "distances", || format!("source {s}: got {g:?} want {w:?}"));
            }
        }
        if nonneg {
            if let Some(g) = &got {
                let du = build_w_usize_scaled(&m, k as usize);
                let dj = DijkstraDist::new(&du, std::iter::once(s)).distances();
                let dj: Vec<isize> = dj.iter().map(|&x| if x == usize::MAX { isize::MAX } else { x as isize }).collect();
                // Dijkstra has its own property (C03); only report a disagreement that the model attributes to BFM
                if &dj != g {
                    o.check(Ok(g.clone()) == want, "disagrees-with-Dijkstra-and-with-the-model", || format!("source {s}: BFM {g:?} Dijkstra {dj:?}"));
                } else {
                    o.comparisons += 1;
                }
            }
        }
    }
    let mut fp = Fp::new();
    m.fingerprint(&mut fp);
    o.fp = fp.0;
    o.nontrivial = neg_reach;
    o.bump(wf);
    o.bump(fam);
    o.bumpn("arcs%4", m.size() % 4);
    o.bumpn("order", n);
    if k > 1 {
        o.bump("weights_scaled_up");
    }
    if n_none > 0 {
        o.bump("cases_with_None_required");
    }
    if n_either > 0 {
        o.bump("cases_with_unreachable_negative_circuit");
    }
    if n_some > 0 && m.arcs.values().any(|&w| w < 0) {
        o.bump("cases_with_Some_and_negative_arcs");
    }
    if o.want_desc {
        o.desc = format!("AdjacencyListWeighted<isize> weights={wf} family={fam} {} (all {n} sources; every weight multiplied by {k})", m.describe());
    }
}
