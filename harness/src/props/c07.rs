use crate::{ctx::CaseOut, Params};
pub fn case(_idx: u64, _seed: u64, _p: &Params, o: &mut CaseOut) {
    o.skipped = true;
}
