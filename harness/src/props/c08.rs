//! C08 — Floyd-Warshall returns the exact all-pairs distance matrix.

use crate::ctx::CaseOut;
use crate::props::c07;
use crate::reprs::*;
use crate::rng::{Fp, Rng};
use crate::Params;
use graaf::*;
use std::collections::BTreeSet;

pub fn case(idx: u64, seed: u64, p: &Params, o: &mut CaseOut) {
    let mut r = Rng::for_case(8, seed, idx);
    let (m, wf, fam) = c07::gen_case(&mut r, p.usize("max_order", 12), false);
    if m.has_negative_circuit() {
        o.skipped = true;
        return;
    }
    let n = m.n();
    let k = isize_scale(&mut r, &m);
    let d = if k > 1 {
        build_w_isize_scaled(&m, k)
    } else if r.chance(0.5) {
        build_w_isize(&m)
    } else {
        build_w_isize_alt(&m)
    };
    let mut fw = FloydWarshall::new(&d);
    let first = fw.distances().clone();
    let mut cl = fw.clone();
    let second = fw.distances().clone();
    o.check(second == first, "distances-differ-on-second-call", || format!("first {:?} second {:?}", first.dist, second.dist));
    let cloned = cl.distances().clone();
    o.check(cloned == first, "distances-differ-on-a-clone", || format!("first {:?} clone {:?}", first.dist, cloned.dist));
    {
        // a third and a fourth call, and a clone taken from the used object
        let mut used = fw.clone();
        for nth in 3..=4 {
            let later = fw.distances().clone();
            o.check(later == first, "distances-differ-on-a-later-call", || format!("first {:?} call {nth}: {:?}", first.dist, later.dist));
        }
        let via_used = used.distances().clone();
        o.check(via_used == first, "distances-differ-on-a-clone-of-a-used-object", || format!("first {:?} clone of used {:?}", first.dist, via_used.dist));
    }
    {
        let other = AdjacencyListWeighted::<isize>::empty(n);
        let mut x = FloydWarshall::new(&other);
        x.clone_from(&FloydWarshall::new(&d));
        let via = x.distances().clone();
        o.check(via == first, "distances-differ-after-clone_from", || format!("direct {:?} via clone_from {:?}", first.dist, via.dist));
    }
    let dist = &first;
    o.eq("matrix-order", &dist.order, &n);
    let mut rows: Vec<Vec<isize>> = Vec::new();
    for u in 0..n {
        let want: Vec<isize> = c07::ref_row(&m, u).expect("harness: negative circuit").into_iter().map(|x| if x == isize::MAX { x } else { x * k }).collect();
        let got: Vec<isize> = crate::ctx::via_graaf(|| (0..n).map(|v| dist[(u, v)]).collect());
        o.check(got == want, "row", || format!("row {u}: got {got:?} want {want:?}"));
        o.check(got[u] == 0, "diagonal", || format!("dist[({u},{u})] = {}", got[u]));
        // row u equals BellmanFordMoore from u
        let mut bfm = BellmanFordMoore::new(&d, u);
        let b = bfm.distances().map(<[isize]>::to_vec);
        if b.as_ref() != Some(&got) {
            // attribute with the model: only FW's fault if FW is the one that is wrong
            o.check(got == want, "row-disagrees-with-BellmanFordMoore-and-with-the-model", || format!("row {u}: FW {got:?} BFM {b:?}"));
        } else {
            o.comparisons += 1;
        }
        rows.push(want);
    }
    let asym = (0..n).any(|u| (0..n).any(|v| rows[u][v] != rows[v][u]));
    let has_inf = rows.iter().flatten().any(|&x| x == isize::MAX);
    let has_neg = rows.iter().flatten().any(|&x| x < 0);
    let finite: BTreeSet<isize> = rows.iter().flatten().copied().filter(|&x| x != isize::MAX).collect();
    let mut fp = Fp::new();
    m.fingerprint(&mut fp);
    o.fp = fp.0;
    o.nontrivial = asym && ((has_inf && has_neg) || finite.len() >= 3);
    o.bump(wf);
    o.bump(fam);
    o.bumpn("order", n);
    if k > 1 {
        o.bump("weights_scaled_up");
    }
    if has_neg {
        o.bump("has_negative_distance");
    }
    if o.want_desc {
        o.desc = format!("AdjacencyListWeighted<isize> weights={wf} family={fam} {} (every weight multiplied by {k})", m.describe());
    }
}
