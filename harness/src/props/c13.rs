//! C13 — the safe API is memory-safe and leak-free for every argument.
//!
//! The oracle is the process outcome: return and Rust panic are the only good
//! outcomes. Sanitizer reports, UB-precondition aborts and signals are seen by
//! the driver; this file produces the workload (probes, short programs) and
//! the heap-growth monitor.

use crate::alloc;
use crate::ctx::{catch, CaseOut};
use crate::gen;
use crate::model::Model;
use crate::reprs::*;
use crate::rng::{Fp, Rng};
use crate::Params;
use graaf::*;
use std::collections::{BTreeMap, BTreeSet};

const CAP: usize = 64;

/// Consume an iterator (at most CAP items) and keep polling it a few times
/// after it is exhausted: a non-fused iterator must stay memory-safe.
fn poll<I: Iterator>(mut it: I) -> usize {
    let mut n = 0;
    while n < CAP {
        if it.next().is_none() {
            break;
        }
        n += 1;
    }
    if n < CAP {
        for _ in 0..3 {
            if it.next().is_some() {
                n += 1;
            }
        }
    }
    n
}

/// Use through clones: advance `k` items, clone, advance original and clone in
/// turns, clone again, drop the original, and poll the clones that outlive it.
fn poll_cloned<I: Iterator + Clone>(mut it: I, k: usize) -> usize {
    let mut n = 0;
    for _ in 0..k {
        n += usize::from(it.next().is_some());
    }
    let mut c = it.clone();
    for _ in 0..3 {
        n += usize::from(c.next().is_some());
        n += usize::from(it.next().is_some());
    }
    let late = it.clone();
    drop(it);
    n + poll(c) + poll(late)
}

/// Vertex argument: in range, last, order, order + 1, far; for sparse vertex
/// sets also ids in the gaps.
fn arg(r: &mut Rng, m: &Model) -> usize {
    let vs = m.vert_list();
    let top = vs.iter().max().map_or(0, |x| x.saturating_add(1));
    match r.below(12) {
        0 => 0,
        1 => top.saturating_sub(1),
        2 => top,
        3 => top.saturating_add(1),
        4 => m.n(),
        5 => m.n() + 1,
        6 => 1000,
        7 => 1 << 20,
        8 => r.below(top.saturating_add(2)),
        _ => {
            if vs.is_empty() {
                0
            } else {
                *r.pick(&vs)
            }
        }
    }
}

fn srcs(r: &mut Rng, m: &Model) -> Vec<usize> {
    let k = *r.pick(&[1usize, 1, 1, 2, 3, 0]);
    (0..k).map(|_| arg(r, m)).collect()
}

const TRAV: [&str; 12] = [
    "Bfs::next",
    "BfsDist::next",
    "BfsDist::distances",
    "BfsPred::next",
    "BfsPred::predecessors",
    "BfsPred::shortest_path",
    "BfsPred::cycles",
    "Dfs::next",
    "DfsDist::next",
    "DfsPred::next",
    "DfsPred::predecessors",
    "Tarjan::components",
];

fn traverse<D: Order + OutNeighbors + Vertices + Clone>(d: &D, t: usize, s: &[usize], tgt: usize) {
    let it = || s.iter().copied();
    let _ = catch(|| match t {
        0 => {
            let _ = poll(Bfs::new(d, it()));
            let _ = poll_cloned(Bfs::new(d, it()), tgt % 3);
        }
        1 => {
            let _ = poll(BfsDist::new(d, it()));
            let _ = poll_cloned(BfsDist::new(d, it()), tgt % 3);
        }
        2 => {
            let _ = BfsDist::new(d, it()).distances();
        }
        3 => {
            let _ = poll(BfsPred::new(d, it()));
            let _ = poll_cloned(BfsPred::new(d, it()), tgt % 3);
        }
        4 => {
            let _ = BfsPred::new(d, it()).predecessors();
        }
        5 => {
            let _ = BfsPred::new(d, it()).shortest_path(|v| v == tgt);
        }
        6 => {
            let _ = BfsPred::new(d, it()).cycles();
        }
        7 => {
            let _ = poll(Dfs::new(d, it()));
            let _ = poll_cloned(Dfs::new(d, it()), tgt % 3);
        }
        8 => {
            let _ = poll(DfsDist::new(d, it()));
            let _ = poll_cloned(DfsDist::new(d, it()), tgt % 3);
        }
        9 => {
            let _ = poll(DfsPred::new(d, it()));
            let _ = poll_cloned(DfsPred::new(d, it()), tgt % 3);
        }
        10 => {
            let _ = DfsPred::new(d, it()).predecessors();
        }
        _ => {
            let _ = Tarjan::new(d).components().len();
        }
    });
}

const QUERY: [&str; 10] = [
    "out_neighbors",
    "in_neighbors",
    "indegree/outdegree/degree",
    "is_sink/is_source/is_isolated/is_pendant",
    "has_arc/has_edge",
    "has_walk",
    "degree sequences and extrema",
    "sinks/sources",
    "structural predicates",
    "pair predicates",
];

fn query<D>(d: &D, q: usize, a: usize, b: usize, walk: &[usize])
where
    D: Order
        + Vertices
        + Arcs
        + Size
        + HasArc
        + HasEdge
        + HasWalk
        + OutNeighbors
        + InNeighbors
        + Indegree
        + Outdegree
        + Degree
        + IsIsolated
        + IsPendant
        + Sinks
        + Sources
        + DegreeSequence
        + IndegreeSequence
        + OutdegreeSequence
        + SemidegreeSequence
        + IsComplete
        + IsSemicomplete
        + IsTournament
        + IsRegular
        + IsBalanced
        + IsSymmetric
        + IsOriented
        + IsSimple
        + IsSubdigraph
        + IsSuperdigraph
        + IsSpanningSubdigraph,
{
    match q {
        0 => {
            let _ = catch(|| poll(d.out_neighbors(a)));
        }
        1 => {
            let _ = catch(|| poll(d.in_neighbors(a)));
        }
        2 => {
            let _ = catch(|| d.indegree(a));
            let _ = catch(|| d.outdegree(a));
            let _ = catch(|| d.degree(a));
        }
        3 => {
            let _ = catch(|| d.is_sink(a));
            let _ = catch(|| d.is_source(a));
            let _ = catch(|| d.is_isolated(a));
            let _ = catch(|| d.is_pendant(a));
        }
        4 => {
            let _ = catch(|| d.has_arc(a, b));
            let _ = catch(|| d.has_edge(a, b));
        }
        5 => {
            let _ = catch(|| d.has_walk(walk));
        }
        6 => {
            let _ = catch(|| poll(d.degree_sequence()));
            let _ = catch(|| poll(d.indegree_sequence()));
            let _ = catch(|| poll(d.outdegree_sequence()));
            let _ = catch(|| poll(d.semidegree_sequence()));
            let _ = catch(|| (d.max_degree(), d.min_degree(), d.max_indegree(), d.min_indegree(), d.max_outdegree(), d.min_outdegree()));
        }
        7 => {
            let _ = catch(|| poll(d.sinks()));
            let _ = catch(|| poll(d.sources()));
            let _ = catch(|| (d.order(), d.size(), poll(d.vertices()), poll(d.arcs())));
            // a non-fused adapter polls the shorter side again after None
            let _ = catch(|| d.arcs().zip(d.vertices()).count() + d.vertices().zip(d.arcs()).count());
            let _ = catch(|| d.arcs().chain(d.arcs()).count());
        }
        8 => {
            let _ = catch(|| d.is_complete());
            let _ = catch(|| d.is_semicomplete());
            let _ = catch(|| d.is_tournament());
            let _ = catch(|| d.is_regular());
            let _ = catch(|| d.is_balanced());
            let _ = catch(|| d.is_symmetric());
            let _ = catch(|| d.is_oriented());
            let _ = catch(|| d.is_simple());
        }
        _ => {
            let _ = catch(|| d.is_subdigraph(d));
            let _ = catch(|| d.is_superdigraph(d));
            let _ = catch(|| d.is_spanning_subdigraph(d));
        }
    }
}

const ALGEBRA: [&str; 4] = ["complement", "converse", "union", "pair predicates on two digraphs"];

fn algebra<D: Clone + Complement + Converse + Union + Arcs + HasArc + Vertices>(d: &D, e: &D, k: usize) {
    match k {
        3 => {
            for (x, y) in [(d, e), (e, d)] {
                let _ = catch(|| x.is_subdigraph(y));
                let _ = catch(|| x.is_superdigraph(y));
                let _ = catch(|| x.is_spanning_subdigraph(y));
            }
        }
        0 => {
            let _ = catch(|| d.complement());
        }
        1 => {
            let _ = catch(|| d.converse());
        }
        _ => {
            let _ = catch(|| d.union(e));
            let _ = catch(|| e.union(d));
        }
    }
}

fn mutate<D: AddArc + RemoveArc>(d: &mut D, a: usize, b: usize) {
    let _ = catch(|| d.add_arc(a, b));
    let _ = catch(|| d.remove_arc(b, a));
    let _ = catch(|| d.remove_arc(a, b));
}

/// The probe catalogue. Returns the probe's name; `None` when `id` is past
/// the end.
const VARIANTS: [&str; 6] = ["AdjacencyList", "AdjacencyMap", "AdjacencyMap(non-contiguous)", "AdjacencyMatrix", "EdgeList", "AdjacencyListWeighted<usize>"];

macro_rules! on_variant {
    ($v:expr, $m:expr, $d:ident => $body:expr) => {
        match $v {
            0 => {
                let $d = AdjacencyList::build($m);
                $body
            }
            1 => {
                let $d = AdjacencyMap::build($m);
                $body
            }
            2 => {
                let $d = build_map_any($m);
                $body
            }
            3 => {
                let $d = AdjacencyMatrix::build($m);
                $body
            }
            4 => {
                let $d = EdgeList::build($m);
                $body
            }
            _ => {
                let $d = build_w_usize($m);
                $body
            }
        }
    };
}

const SPECIAL: [&str; 27] = [
    "Dijkstra::next",
    "DijkstraDist::next",
    "DijkstraDist::distances",
    "DijkstraPred::next",
    "DijkstraPred::predecessors",
    "DijkstraPred::shortest_path",
    "BellmanFordMoore::new+distances",
    "FloydWarshall::distances",
    "PredecessorTree::search (user-built pred)",
    "PredecessorTree::search_by (user-built pred)",
    "PredecessorTree::new/Index",
    "DistanceMatrix::new/Index/metrics",
    "DistanceMatrix::new (huge order)",
    "AdjacencyMatrix::empty(2^32)+add_arc/toggle/has_arc/remove_arc",
    "AdjacencyMatrix::toggle",
    "AdjacencyMap::filter_vertices (+ operations on an order-0 map)",
    "Johnson75::circuits (contiguous)",
    "Johnson75::circuits (non-contiguous)",
    "AdjacencyMap::union with order-0 / disjoint / nested key sets",
    "generators with boundary parameters",
    "From<other representation> (incl. non-contiguous source)",
    "From<iterator> with invalid rows / arcs",
    "AdjacencyListWeighted queries with outside ids",
    "AdjacencyListWeighted::add_arc_weighted/remove_arc",
    "Xoshiro256StarStar",
    "AdjacencyMap is_semicomplete/is_tournament/converse/complement (non-contiguous)",
    "traversals and From<iterator> fed by an unfriendly iterator (passes differ, size_hint lies)",
];

/// A legal but unfriendly iterator. All clones share a pass counter: the
/// k-th pass that is started (by the original or by any clone) yields the
/// k-th script line, so validating a clone says nothing about what the
/// iterator itself will yield; and `size_hint` returns whatever it was told
/// to. Both are allowed by the Iterator contract ("an incorrect size_hint
/// must not lead to memory-safety violations"), so the safe API must answer
/// with a panic or a valid value, never with an out-of-bounds access.
#[derive(Clone)]
struct Unfriendly<T: Clone> {
    script: std::rc::Rc<Vec<Vec<T>>>,
    started: std::rc::Rc<std::cell::Cell<usize>>,
    mine: Option<usize>,
    pos: usize,
    hint: (usize, Option<usize>),
}

impl<T: Clone> Unfriendly<T> {
    fn new(script: Vec<Vec<T>>, hint: (usize, Option<usize>)) -> Self {
        Unfriendly { script: std::rc::Rc::new(script), started: std::rc::Rc::new(std::cell::Cell::new(0)), mine: None, pos: 0, hint }
    }
}

impl<T: Clone> Iterator for Unfriendly<T> {
    type Item = T;
    fn next(&mut self) -> Option<T> {
        let started = &self.started;
        let line = *self.mine.get_or_insert_with(|| {
            let k = started.get();
            started.set(k + 1);
            k
        });
        let l = &self.script[line.min(self.script.len() - 1)];
        let x = l.get(self.pos).cloned();
        self.pos += 1;
        x
    }
    fn size_hint(&self) -> (usize, Option<usize>) {
        self.hint
    }
}

fn unfriendly_probe(r: &mut Rng, m: &Model) -> String {
    let n = m.n();
    let hint = *r.pick(&[(0usize, None), (0, Some(0)), (1, Some(1)), (n, Some(n)), (n * n + 7, Some(n * n + 7)), (4096, None), (3, Some(1))]);
    let good: Vec<usize> = (0..r.range(1, 3)).map(|_| r.below(n)).collect();
    let far = *r.pick(&[n, n + 1, n + 63, 2 * n + 1, 1 << 20, usize::MAX]);
    let mut bad = good.clone();
    let at = r.below(bad.len() + 1);
    bad.insert(at, far);
    // which pass gets the out-of-range id: the first, the second, the third, none
    let script: Vec<Vec<usize>> = match r.below(5) {
        0 => vec![good.clone(), bad.clone()],
        1 => vec![bad.clone(), good.clone()],
        2 => vec![good.clone(), good.clone(), bad.clone()],
        3 => vec![good.clone(), vec![], bad.clone()],
        _ => vec![good.clone()],
    };
    let t = r.below(12);
    let v = r.below(4);
    let tgt = r.below(n + 1);
    macro_rules! trav {
        ($d:expr) => {{
            let d = $d;
            let mk = || Unfriendly::new(script.clone(), hint);
            let _ = catch(|| match t {
                0 => drop(poll(Bfs::new(&d, mk()))),
                1 => drop(poll(BfsDist::new(&d, mk()))),
                2 => drop(BfsDist::new(&d, mk()).distances()),
                3 => drop(poll(BfsPred::new(&d, mk()))),
                4 => drop(BfsPred::new(&d, mk()).predecessors()),
                5 => drop(BfsPred::new(&d, mk()).shortest_path(|x| x == tgt)),
                6 => drop(BfsPred::new(&d, mk()).cycles()),
                7 => drop(poll(Dfs::new(&d, mk()))),
                8 => drop(poll(DfsDist::new(&d, mk()))),
                9 => drop(poll(DfsPred::new(&d, mk()))),
                10 => drop(DfsPred::new(&d, mk()).predecessors()),
                _ => {
                    // a traversal cloned before and after its first step
                    let mut a = Bfs::new(&d, mk());
                    let b = a.clone();
                    let _ = a.next();
                    let c = a.clone();
                    let _ = (poll(a), poll(b), poll(c));
                }
            });
        }};
    }
    match v {
        0 => trav!(AdjacencyList::build(m)),
        1 => trav!(AdjacencyMap::build(m)),
        2 => trav!(AdjacencyMatrix::build(m)),
        _ => trav!(EdgeList::build(m)),
    }
    // weighted traversals
    {
        let d = build_w_usize(m);
        let mk = || Unfriendly::new(script.clone(), hint);
        let _ = catch(|| match t % 6 {
            0 => drop(poll(Dijkstra::new(&d, mk()))),
            1 => drop(poll(DijkstraDist::new(&d, mk()))),
            2 => drop(DijkstraDist::new(&d, mk()).distances()),
            3 => drop(poll(DijkstraPred::new(&d, mk()))),
            4 => drop(DijkstraPred::new(&d, mk()).predecessors()),
            _ => drop(DijkstraPred::new(&d, mk()).shortest_path(|x| x == tgt)),
        });
    }
    // predicates that panic on their k-th call; the object is used again afterwards
    {
        let k = r.below(4);
        let calls = std::cell::Cell::new(0usize);
        let boom = |hit: bool| -> bool {
            let c = calls.get();
            calls.set(c + 1);
            assert!(c != k, "predicate gives up");
            hit
        };
        let d = AdjacencyList::build(m);
        let src = [r.below(n)];
        let mut it = BfsPred::new(&d, src.iter().copied());
        let _ = catch(|| it.shortest_path(|x| boom(x == tgt)).map(|p| p.len()));
        let _ = catch(|| (it.next(), it.shortest_path(|x| x == tgt).map(|p| p.len())));
        calls.set(0);
        let dw = build_w_usize(m);
        let mut it = DijkstraPred::new(&dw, src.iter().copied());
        let _ = catch(|| it.shortest_path(|x| boom(x == tgt)).map(|p| p.len()));
        let _ = catch(|| (it.next(), it.shortest_path(|x| x == tgt).map(|p| p.len())));
        calls.set(0);
        let tree = BfsPred::new(&d, src.iter().copied()).predecessors();
        let _ = catch(|| tree.search_by(r.below(n), |&x, _| boom(x == tgt)).map(|p| p.len()));
        let _ = catch(|| tree.search(r.below(n), tgt.min(n - 1)).map(|p| p.len()));
        calls.set(0);
        let mp = build_map_any(m);
        let _ = catch(|| mp.filter_vertices(|x| boom(x % 2 == 0)).order());
        let _ = catch(|| mp.filter_vertices(|x| x % 2 == 0).order());
    }
    // constructors from iterators: rows / weight maps / arcs
    let rows: Vec<BTreeSet<usize>> = (0..n).map(|u| m.out(u).into_iter().collect()).collect();
    let mut rows_bad = rows.clone();
    let _ = rows_bad[r.below(n)].insert(far);
    let rscript = match r.below(3) {
        0 => vec![rows.clone(), rows_bad.clone()],
        1 => vec![rows.clone(), vec![]],
        _ => vec![rows.clone(), rows[..n / 2].to_vec(), rows_bad.clone()],
    };
    let _ = catch(|| AdjacencyList::from(Unfriendly::new(rscript.clone(), hint)).order());
    let _ = catch(|| AdjacencyMap::from(Unfriendly::new(rscript.clone(), hint)).order());
    let wrows = |rs: &Vec<BTreeSet<usize>>| -> Vec<BTreeMap<usize, usize>> { rs.iter().map(|s| s.iter().map(|&x| (x, x.wrapping_add(1))).collect()).collect() };
    let wscript: Vec<Vec<BTreeMap<usize, usize>>> = rscript.iter().map(wrows).collect();
    let _ = catch(|| AdjacencyListWeighted::<usize>::from(Unfriendly::new(wscript.clone(), hint)).order());
    let arcs = m.arc_list();
    let mut arcs_bad = arcs.clone();
    arcs_bad.push((r.below(n), far));
    let ascript = match r.below(3) {
        0 => vec![arcs.clone(), arcs_bad.clone()],
        1 => vec![arcs_bad.clone(), arcs.clone()],
        _ => vec![arcs.clone(), vec![], arcs_bad.clone()],
    };
    if far < (1 << 21) {
        // (an id of 2^20 makes a legitimate 2^40-bit matrix request; keep the far id small for the matrix)
        let _ = catch(|| EdgeList::from(Unfriendly::new(ascript.clone(), hint)).order());
        if far <= 2 * n + 1 {
            let _ = catch(|| AdjacencyMatrix::from(Unfriendly::new(ascript.clone(), hint)).order());
        }
    }
    format!("hint {hint:?} source script {script:?} traversal {t} on {} D: {}", ["AdjacencyList", "AdjacencyMap", "AdjacencyMatrix", "EdgeList"][v], m.describe())
}

pub fn n_probes() -> usize {
    (TRAV.len() + QUERY.len() + 1) * VARIANTS.len() + ALGEBRA.len() * 5 + SPECIAL.len()
}

fn small_model(r: &mut Rng, max: usize) -> Model {
    let f = r.below(gen::FAMILIES.len());
    let n = r.range(1, max);
    gen::family(r, f, n)
}

fn w_usize(r: &mut Rng, m: &Model) -> Model {
    let mut m = m.clone();
    gen::weights(r, &mut m, gen::WClass::Small);
    m
}

fn probe(id: usize, r: &mut Rng, max: usize) -> String {
    let nv = VARIANTS.len();
    let m0 = small_model(r, max);
    let mut sparse = gen::sparsify(r, &m0);
    if r.chance(0.08) {
        // the largest legal vertex id
        let top = *sparse.verts.iter().max().unwrap();
        let f = |v: usize| if v == top { usize::MAX } else { v };
        sparse = Model {
            verts: sparse.verts.iter().map(|&v| f(v)).collect(),
            arcs: sparse.arcs.iter().map(|(&(u, v), &w)| ((f(u), f(v)), w)).collect(),
        };
    }
    if r.chance(0.35) && m0.n() >= 2 {
        // ids 0..n-2 and then n: the last vertex's id equals the order, the
        // first id that an order-sized buffer does not have
        let n = m0.n();
        let f = |v: usize| if v == n - 1 { n } else { v };
        sparse = Model {
            verts: m0.verts.iter().map(|&v| f(v)).collect(),
            arcs: m0.arcs.iter().map(|(&(u, v), &w)| ((f(u), f(v)), w)).collect(),
        };
    }
    let mut id = id;
    // traversals
    if id < TRAV.len() * nv {
        let (t, v) = (id / nv, id % nv);
        let m = if v == 2 { &sparse } else { &m0 };
        let mut s = srcs(r, m);
        if r.chance(0.3) {
            // every vertex a source: every arc gets explored
            s = m.vert_list();
        }
        let tgt = arg(r, m);
        on_variant!(v, m, d => traverse(&d, t, &s, tgt));
        return format!("{} on {} sources={s:?} D: {}", TRAV[t], VARIANTS[v], m.describe());
    }
    id -= TRAV.len() * nv;
    if id < QUERY.len() * nv {
        let (q, v) = (id / nv, id % nv);
        let m = if v == 2 { &sparse } else { &m0 };
        let (a, b) = (arg(r, m), arg(r, m));
        let walk: Vec<usize> = (0..r.below(5)).map(|_| arg(r, m)).collect();
        on_variant!(v, m, d => query(&d, q, a, b, &walk));
        return format!("{} on {} args=({a},{b}) walk={walk:?} D: {}", QUERY[q], VARIANTS[v], m.describe());
    }
    id -= QUERY.len() * nv;
    if id < nv {
        let v = id;
        let m = if v == 2 { &sparse } else { &m0 };
        let (a, b) = (arg(r, m), arg(r, m));
        match v {
            0 => mutate(&mut AdjacencyList::build(m), a, b),
            1 => mutate(&mut AdjacencyMap::build(m), a, b),
            2 => mutate(&mut build_map_any(m), a, b),
            3 => mutate(&mut AdjacencyMatrix::build(m), a, b),
            4 => mutate(&mut EdgeList::build(m), a, b),
            _ => {
                let mut d = build_w_usize(m);
                let _ = catch(|| d.add_arc_weighted(a, b, 3));
                let _ = catch(|| d.remove_arc(a, b));
            }
        }
        return format!("add_arc/remove_arc on {} args=({a},{b}) D: {}", VARIANTS[v], m.describe());
    }
    id -= nv;
    if id < ALGEBRA.len() * 5 {
        let (k, v) = (id / 5, id % 5);
        let mut m1 = small_model(r, max);
        let mut sp1 = gen::sparsify(r, &m1);
        if k == 3 && r.chance(0.7) {
            // E derived from D: some arcs deleted, then the vertex set grown
            // or shrunk, so that sub-/superdigraph tests get past their first
            // comparison
            let thin = |r: &mut Rng, m: &Model| {
                let mut t = m.clone();
                let p = *r.pick(&[0.0, 0.3, 0.7, 1.0]);
                t.arcs.retain(|_, _| !r.chance(p));
                t
            };
            let n0 = m0.n();
            let t = thin(r, &m0);
            m1 = Model::new(match r.below(4) {
                0 => n0,
                1 => n0 + 1,
                2 => n0 + 1 + r.below(3),
                _ => n0.saturating_sub(1).max(1),
            });
            for (&(a, b), &w) in &t.arcs {
                if a < m1.n() && b < m1.n() {
                    m1.add(a, b, w);
                }
            }
            sp1 = thin(r, &sparse);
            if r.chance(0.5) {
                // drop the vertices that have lost all their arcs
                let used: std::collections::BTreeSet<usize> = sp1.arcs.keys().flat_map(|&(a, b)| [a, b]).collect();
                if !used.is_empty() {
                    sp1.verts.retain(|x| used.contains(x));
                }
            }
            // and admit up to two new ones: above the largest id of D, in a gap, from the pool
            let top = sparse.verts.iter().max().copied().unwrap_or(0);
            if r.chance(0.4) && sparse.verts.len() >= 2 {
                // fewer vertices than D, D's largest among the missing ones, and
                // one id above everything D has: a merge over the two sorted
                // vertex lists runs off the end of D's
                sp1 = thin(r, &sparse).induced(|x| x != top);
                if r.chance(0.4) {
                    let gone = *r.pick(&sparse.vert_list());
                    sp1 = sp1.induced(|x| x != gone);
                }
                let _ = sp1.verts.insert(top.saturating_add(1 + r.below(3)));
            } else {
            for _ in 0..r.below(3) {
                let extra = match r.below(4) {
                    0 | 1 => top.saturating_add(1 + r.below(3)),
                    2 => r.below(top.saturating_add(2)),
                    _ => *r.pick(&gen::SPARSE_POOL),
                };
                let _ = sp1.verts.insert(extra);
            }
            }
        }
        match v {
            0 => algebra(&AdjacencyList::build(&m0), &AdjacencyList::build(&m1), k),
            1 => algebra(&AdjacencyMap::build(&m0), &AdjacencyMap::build(&m1), k),
            2 => algebra(&build_map_any(&sparse), &build_map_any(&sp1), k),
            3 => algebra(&AdjacencyMatrix::build(&m0), &AdjacencyMatrix::build(&m1), k),
            _ => algebra(&EdgeList::build(&m0), &EdgeList::build(&m1), k),
        }
        return format!("{} on {} D: {} E: {}", ALGEBRA[k], VARIANTS[v], if v == 2 { sparse.describe() } else { m0.describe() }, if v == 2 { sp1.describe() } else { m1.describe() });
    }
    id -= ALGEBRA.len() * 5;
    let name = SPECIAL[id.min(SPECIAL.len() - 1)];
    let mut extra = String::new();
    match id {
        0..=5 => {
            let mw = w_usize(r, &m0);
            let d = build_w_usize(&mw);
            let s = srcs(r, &mw);
            let tgt = arg(r, &mw);
            let it = || s.iter().copied();
            let _ = catch(|| match id {
                0 => {
                    let _ = poll(Dijkstra::new(&d, it()));
                    let _ = poll_cloned(Dijkstra::new(&d, it()), tgt % 3);
                }
                1 => {
                    let _ = poll(DijkstraDist::new(&d, it()));
                    let _ = poll_cloned(DijkstraDist::new(&d, it()), tgt % 3);
                }
                2 => {
                    let _ = DijkstraDist::new(&d, it()).distances();
                }
                3 => {
                    let _ = poll(DijkstraPred::new(&d, it()));
                    let _ = poll_cloned(DijkstraPred::new(&d, it()), tgt % 3);
                }
                4 => {
                    let _ = DijkstraPred::new(&d, it()).predecessors();
                }
                _ => {
                    let _ = DijkstraPred::new(&d, it()).shortest_path(|v| v == tgt);
                }
            });
            extra = format!("sources={s:?} D: {}", mw.describe());
        }
        6 => {
            let mut mw = m0.clone();
            gen::weights(r, &mut mw, gen::WClass::MixedNeg);
            let d = build_w_isize(&mw);
            let s = arg(r, &mw);
            let _ = catch(|| BellmanFordMoore::new(&d, s).distances().map(<[isize]>::to_vec));
            extra = format!("source={s} D: {}", mw.describe());
        }
        7 => {
            let mut mw = m0.clone();
            gen::weights(r, &mut mw, gen::WClass::MixedNeg);
            let d = build_w_isize(&mw);
            let _ = catch(|| {
                let mut fw = FloydWarshall::new(&d);
                let dm = fw.distances();
                (dm.diameter().to_owned(), dm.center(), dm.periphery().count(), dm.is_connected())
            });
            extra = format!("D: {}", mw.describe());
        }
        8 | 9 => {
            // user-built predecessor vector with entries in range, order,
            // order + 1 and far
            let n = r.range(1, 6);
            let pred: Vec<Option<usize>> = (0..n)
                .map(|_| match r.below(8) {
                    0 => None,
                    1 => Some(n),
                    2 => Some(n + 1),
                    3 => Some(*r.pick(&[1000usize, 1 << 20, usize::MAX])),
                    _ => Some(r.below(n)),
                })
                .collect();
            let (x, y) = (r.below(n), r.below(n));
            let s = *r.pick(&[0, n - 1, n, x]);
            let t = *r.pick(&[0, n - 1, n, 1000, y]);
            let tree = PredecessorTree::from(pred.clone());
            if id == 8 {
                let _ = catch(|| tree.search(s, t));
            } else {
                let _ = catch(|| tree.search_by(s, |&v, p| v == t || p.is_none()));
                let _ = catch(|| tree.search_by(s, |_, _| false));
            }
            extra = format!("pred={pred:?} s={s} t={t}");
        }
        10 => {
            let n = r.below(4);
            let _ = catch(|| {
                let mut t = PredecessorTree::new(n);
                t[0] = Some(7);
                let x = t[n];
                (x, t.into_iter().count())
            });
            extra = format!("order={n}");
        }
        11 => {
            let n = r.below(5);
            let (a, b) = (r.below(n + 2), r.below(n + 2));
            let _ = catch(|| {
                let mut dm = DistanceMatrix::<usize>::new(n, usize::MAX);
                dm[(a.min(n.saturating_sub(1)), 0)] = 3;
                let x = dm[(a, b)];
                let y = dm[a * n + b];
                (x, y, dm.center(), *dm.diameter(), dm.periphery().count(), dm.is_connected(), dm.eccentricities().count())
            });
            let _ = catch(|| {
                let dm = DistanceMatrix::<isize>::new(n, isize::MAX);
                dm[..].len() + dm[0..n].len()
            });
            // the fields are public: a caller may leave them inconsistent
            let how = r.below(4);
            let _ = catch(|| {
                let mut dm = DistanceMatrix::<usize>::new(n.max(1), 9);
                match how {
                    0 => dm.order += 2,
                    1 => dm.dist.truncate(1),
                    2 => dm.dist.clear(),
                    _ => dm.order = 1 << 20,
                }
                let x = dm[(a, b)];
                dm[(b, a)] = 1;
                (x, dm.center(), *dm.diameter(), dm.periphery().count(), dm.is_connected(), dm.eccentricities().count())
            });
            extra = format!("order={n} index=({a},{b})");
        }
        12 => {
            let n = *r.pick(&[1usize << 32, (1 << 32) + 1, 1 << 63, usize::MAX]);
            let _ = catch(|| DistanceMatrix::<u8>::new(n, 0).order);
            extra = format!("order={n}");
        }
        13 => {
            let n = 1usize << 32;
            let (a, b) = (*r.pick(&[0usize, 1, 5, 1 << 31]), *r.pick(&[1usize, 2, 64, 1 << 20, (1 << 32) - 1]));
            let _ = catch(|| {
                let mut d = AdjacencyMatrix::empty(n);
                if a != b {
                    d.add_arc(a, b);
                    d.toggle(b, a);
                    let _ = d.remove_arc(a, b);
                }
                d.has_arc(a, b)
            });
            extra = format!("order=2^32 arc=({a},{b})");
        }
        14 => {
            let (a, b) = (arg(r, &m0), arg(r, &m0));
            let mut d = AdjacencyMatrix::build(&m0);
            let _ = catch(|| d.toggle(a, b));
            extra = format!("toggle({a},{b}) D: {}", m0.describe());
        }
        15 => {
            let d = build_map_any(&sparse);
            let k = arg(r, &sparse);
            let _ = catch(|| d.filter_vertices(|v| v > k).order());
            let z = catch(|| d.filter_vertices(|_| false));
            if let Ok(z) = z {
                // operations on an order-0 map
                let _ = catch(|| z.complement());
                let _ = catch(|| z.converse());
                let _ = catch(|| z.union(&d));
                let _ = catch(|| d.union(&z));
                let _ = catch(|| z.union(&z));
                let _ = catch(|| z.is_complete());
                let _ = catch(|| z.is_semicomplete());
                let _ = catch(|| z.is_tournament());
                let _ = catch(|| z.is_regular());
                let _ = catch(|| z.degree_sequence().count());
                let _ = catch(|| Bfs::new(&z, [0usize].into_iter()).count());
                let _ = catch(|| Dfs::new(&z, [0usize].into_iter()).count());
                let _ = catch(|| Johnson75::new(&z).circuits());
                let _ = catch(|| Tarjan::new(&z).components().len());
                let _ = catch(|| AdjacencyList::from(z.clone()));
            }
            extra = format!("threshold={k} D: {}", sparse.describe());
        }
        16 => {
            let d = AdjacencyMap::build(&m0);
            let _ = catch(|| Johnson75::new(&d).circuits().len());
            extra = format!("D: {}", m0.describe());
        }
        17 => {
            let d = build_map_any(&sparse);
            let _ = catch(|| Johnson75::new(&d).circuits().len());
            extra = format!("D: {}", sparse.describe());
        }
        18 => {
            let a = build_map_any(&sparse);
            let m1 = small_model(r, max);
            let other = match r.below(3) {
                0 => gen::sparsify(r, &m1),
                1 => sparse.induced(|v| v % 2 == 0),
                _ => m1,
            };
            if other.n() > 0 {
                let b = build_map_any(&other);
                let _ = catch(|| a.union(&b).order());
                let _ = catch(|| b.union(&a).order());
            }
            extra = format!("A: {} B: {}", sparse.describe(), other.describe());
        }
        19 => {
            let n = *r.pick(&[0usize, 1, 2, 3, 4, 5, 17]);
            let k = r.below(4);
            let g = r.below(11);
            let seed = r.next();
            macro_rules! gens {
                ($T:ty) => {{
                    let _ = catch(|| match g {
                        0 => <$T>::empty(n).order(),
                        1 => <$T>::complete(n).order(),
                        2 => <$T>::circuit(n).order(),
                        3 => <$T>::cycle(n).order(),
                        4 => <$T>::path(n).order(),
                        5 => <$T>::star(n).order(),
                        6 => <$T>::wheel(n).order(),
                        7 => <$T>::biclique(n, k).order(),
                        8 => <$T>::random_tournament(n, seed).order(),
                        9 => <$T>::random_recursive_tree(n, seed).order(),
                        _ => <$T>::erdos_renyi(n, *[0.0, 0.5, 1.0, -0.1, 1.5, f64::NAN].get(k).unwrap_or(&0.3), seed).order(),
                    });
                }};
            }
            gens!(AdjacencyList);
            gens!(AdjacencyMap);
            gens!(AdjacencyMatrix);
            gens!(EdgeList);
            extra = format!("generator #{g} order={n} k={k}");
        }
        20 => {
            let d = build_map_any(&sparse);
            let _ = catch(|| AdjacencyList::from(d.clone()).order());
            let _ = catch(|| AdjacencyMatrix::from(d.clone()).order());
            let _ = catch(|| EdgeList::from(d.clone()).order());
            let _ = catch(|| AdjacencyListWeighted::<usize>::from(d.clone()).order());
            let _ = catch(|| AdjacencyListWeighted::<isize>::from(d.clone()).order());
            let c = AdjacencyMatrix::build(&m0);
            let _ = catch(|| AdjacencyMap::from(c.clone()).order());
            let _ = catch(|| AdjacencyList::from(c.clone()).order());
            let _ = catch(|| EdgeList::from(c).order());
            extra = format!("D: {} C: {}", sparse.describe(), m0.describe());
        }
        21 => {
            let n = r.range(0, 4);
            let rows: Vec<BTreeSet<usize>> = (0..n).map(|_| (0..r.below(3)).map(|_| r.below(n + 2)).collect()).collect();
            let arcs: Vec<(usize, usize)> = (0..r.below(4)).map(|_| (r.below(4), r.below(4))).collect();
            let wrows: Vec<BTreeMap<usize, usize>> = rows.iter().map(|s| s.iter().map(|&v| (v, 1)).collect()).collect();
            // whatever a constructor accepts must be safe to use afterwards
            let t = r.below(TRAV.len());
            let s0 = [0usize, n.saturating_sub(1)];
            if let Ok(d) = catch(|| AdjacencyList::from(rows.clone())) {
                traverse(&d, t, &s0, 0);
                query(&d, r.below(QUERY.len()), 0, n, &[0, 1]);
                let _ = catch(|| (d.complement().order(), d.converse().order(), d.union(&d).order()));
            }
            if let Ok(d) = catch(|| AdjacencyMap::from(rows.clone())) {
                traverse(&d, t, &s0, 0);
                query(&d, r.below(QUERY.len()), 0, n, &[0, 1]);
                let _ = catch(|| (d.complement().order(), d.converse().order(), d.union(&d).order(), Johnson75::new(&d).circuits().len()));
            }
            if let Ok(d) = catch(|| AdjacencyMatrix::from(arcs.clone())) {
                traverse(&d, t, &s0, 0);
                query(&d, r.below(QUERY.len()), 0, n, &[0, 1]);
            }
            if let Ok(d) = catch(|| EdgeList::from(arcs.clone())) {
                traverse(&d, t, &s0, 0);
                query(&d, r.below(QUERY.len()), 0, n, &[0, 1]);
                let _ = catch(|| AdjacencyList::from(d.clone()).order());
            }
            if let Ok(d) = catch(|| AdjacencyListWeighted::<usize>::from(wrows.clone())) {
                traverse(&d, t, &s0, 0);
                let _ = catch(|| DijkstraDist::new(&d, s0.iter().copied()).distances());
                let _ = catch(|| DijkstraPred::new(&d, s0.iter().copied()).predecessors());
                let _ = catch(|| d.converse().order());
            }
            let irows: Vec<BTreeMap<usize, isize>> = rows.iter().map(|s| s.iter().map(|&v| (v, -1)).collect()).collect();
            if let Ok(d) = catch(|| AdjacencyListWeighted::<isize>::from(irows.clone())) {
                for s in 0..n {
                    let _ = catch(|| BellmanFordMoore::new(&d, s).distances().map(<[isize]>::to_vec));
                }
                let _ = catch(|| FloydWarshall::new(&d).distances().center());
            }
            extra = format!("rows={rows:?} arcs={arcs:?}");
        }
        22 => {
            let mw = w_usize(r, &m0);
            let d = build_w_usize(&mw);
            let (a, b) = (arg(r, &mw), arg(r, &mw));
            let _ = catch(|| d.arc_weight(a, b).copied());
            let _ = catch(|| poll(d.out_neighbors_weighted(a)));
            let _ = catch(|| poll(d.arcs_weighted()));
            let _ = catch(|| d.converse().order());
            extra = format!("args=({a},{b}) D: {}", mw.describe());
        }
        23 => {
            let mut d = build_w_isize(&m0);
            let (a, b) = (arg(r, &m0), arg(r, &m0));
            let _ = catch(|| d.add_arc_weighted(a, b, -4));
            let _ = catch(|| d.remove_arc(a, b));
            extra = format!("args=({a},{b}) D: {}", m0.describe());
        }
        24 => {
            let s = r.next();
            let _ = catch(|| {
                let mut g = graaf::gen::prng::Xoshiro256StarStar::new(s);
                (g.next_f64(), g.next_bool(), g.next())
            });
            extra = format!("seed={s}");
        }
        25 => {
            let d = build_map_any(&sparse);
            let _ = catch(|| d.is_semicomplete());
            let _ = catch(|| d.is_tournament());
            let _ = catch(|| d.converse().order());
            let _ = catch(|| d.complement().order());
            let _ = catch(|| d.is_complete());
            extra = format!("D: {}", sparse.describe());
        }
        _ => {
            extra = unfriendly_probe(r, &m0);
        }
    }
    format!("{name} {extra}")
}

// ---- heap growth -----------------------------------------------------------

pub const LEAK_OPS: [&str; 40] = [
    "AdjacencyList::complement",
    "AdjacencyList::complete",
    "AdjacencyList::converse",
    "AdjacencyList::degree_sequence",
    "AdjacencyList::is_semicomplete",
    "AdjacencyList::union",
    "AdjacencyList::erdos_renyi",
    "AdjacencyList::clone+add_arc",
    "AdjacencyMap::union (equal keys)",
    "AdjacencyMap::union (disjoint keys)",
    "AdjacencyMap::union (partially overlapping keys)",
    "AdjacencyMap::complement",
    "AdjacencyMap::converse",
    "AdjacencyMap::erdos_renyi",
    "AdjacencyMap::random_tournament",
    "AdjacencyMap::filter_vertices",
    "AdjacencyMap::is_semicomplete/is_tournament",
    "AdjacencyMatrix::complement/converse/union",
    "EdgeList::complement/converse/union",
    "AdjacencyListWeighted::converse",
    "Bfs/BfsDist/BfsPred",
    "BfsPred::cycles/shortest_path",
    "Dfs/DfsDist/DfsPred",
    "Dijkstra/DijkstraDist/DijkstraPred",
    "BellmanFordMoore::distances",
    "FloydWarshall::distances + metrics",
    "Tarjan::components",
    "Johnson75::circuits",
    "conversions between representations",
    "From<iterator>",
    "generators (all deterministic)",
    "generators (seeded)",
    "PredecessorTree::search",
    "DistanceMatrix::new",
    "rejected add_arc (panic path)",
    "rejected traversal source (panic path)",
    "AdjacencyMap::union with a filtered map",
    "AdjacencyMap::add_arc/remove_arc history",
    "AdjacencyMatrix::toggle history",
    "AdjacencyList::union (different orders)",
];

struct Fix {
    m: Model,
    m2: Model,
    al: AdjacencyList,
    al2: AdjacencyList,
    am: AdjacencyMap,
    am2: AdjacencyMap,
    amd: AdjacencyMap,
    amo: AdjacencyMap,
    mx: AdjacencyMatrix,
    el: EdgeList,
    wu: AdjacencyListWeighted<usize>,
    wi: AdjacencyListWeighted<isize>,
}

fn fixtures(r: &mut Rng) -> Fix {
    let n = r.range(5, 12);
    let m = gen::random_arcs(r, n, 0.35);
    let m2 = gen::random_arcs(r, n + 3, 0.3);
    let mut mw = m.clone();
    gen::weights(r, &mut mw, gen::WClass::Small);
    let disjoint = Model {
        verts: m.verts.iter().map(|v| v + 100).collect(),
        arcs: m.arcs.iter().map(|(&(u, v), &w)| ((u + 100, v + 100), w)).collect(),
    };
    let overlap = Model {
        verts: m.verts.iter().map(|v| v + n / 2).collect(),
        arcs: m.arcs.iter().map(|(&(u, v), &w)| ((u + n / 2, v + n / 2), w)).collect(),
    };
    Fix {
        al: AdjacencyList::build(&m),
        al2: AdjacencyList::build(&m2),
        am: AdjacencyMap::build(&m),
        am2: AdjacencyMap::build(&m2),
        amd: build_map_any(&disjoint),
        amo: build_map_any(&overlap),
        mx: AdjacencyMatrix::build(&m),
        el: EdgeList::build(&m),
        wu: build_w_usize(&mw),
        wi: build_w_isize(&mw),
        m,
        m2,
    }
}

fn leak_op(k: usize, f: &Fix, rep: u64) {
    let n = f.m.n();
    let _ = catch(|| match k {
        0 => drop(f.al.complement()),
        1 => drop(AdjacencyList::complete(n + 20)),
        2 => drop(f.al.converse()),
        3 => drop(f.al.degree_sequence().count()),
        4 => drop(AdjacencyList::complete(n).is_semicomplete()),
        5 => drop(f.al.union(&f.al)),
        6 => drop(AdjacencyList::erdos_renyi(n, 0.5, rep)),
        7 => {
            let mut c = f.al.clone();
            c.add_arc(0, n - 1);
        }
        8 => drop(f.am.union(&f.am)),
        9 => drop(f.am.union(&f.amd)),
        10 => drop(f.am.union(&f.amo)),
        11 => drop(f.am.complement()),
        12 => drop(f.am.converse()),
        13 => drop(AdjacencyMap::erdos_renyi(n + 20, 0.3, rep)),
        14 => drop(AdjacencyMap::random_tournament(n + 20, rep)),
        15 => drop(f.am.filter_vertices(|v| v % 2 == 0)),
        16 => drop((AdjacencyMap::complete(n).is_semicomplete(), AdjacencyMap::random_tournament(n, 3).is_tournament())),
        17 => drop((f.mx.complement(), f.mx.converse(), f.mx.union(&f.mx))),
        18 => drop((f.el.complement(), f.el.converse(), f.el.union(&f.el))),
        19 => drop((f.wu.converse(), f.wi.converse())),
        20 => drop((Bfs::new(&f.al, 0..1).count(), BfsDist::new(&f.am, 0..1).distances(), BfsPred::new(&f.mx, 0..1).predecessors())),
        21 => drop((BfsPred::new(&f.al, 0..1).cycles(), BfsPred::new(&f.el, 0..1).shortest_path(|v| v == n - 1))),
        22 => drop((Dfs::new(&f.al, 0..1).count(), DfsDist::new(&f.am, 0..1).count(), DfsPred::new(&f.mx, 0..1).predecessors())),
        23 => drop((
            Dijkstra::new(&f.wu, 0..1).count(),
            DijkstraDist::new(&f.wu, 0..1).distances(),
            DijkstraPred::new(&f.wu, 0..1).shortest_path(|v| v == n - 1),
        )),
        24 => drop(BellmanFordMoore::new(&f.wi, 0).distances().map(<[isize]>::to_vec)),
        25 => {
            let mut fw = FloydWarshall::new(&f.wi);
            let d = fw.distances();
            drop((d.center(), d.periphery().count(), d.is_connected()));
        }
        26 => drop(Tarjan::new(&f.am).components().len()),
        27 => drop(Johnson75::new(&AdjacencyMap::build(&f.m.induced(|v| v < 6))).circuits()),
        28 => drop((
            AdjacencyMap::from(f.al.clone()),
            AdjacencyMatrix::from(f.am.clone()),
            EdgeList::from(f.mx.clone()),
            AdjacencyList::from(f.el.clone()),
            AdjacencyListWeighted::<usize>::from(f.al.clone()),
        )),
        29 => drop((AdjacencyList::build_alt(&f.m), AdjacencyMap::build_alt(&f.m), EdgeList::build_alt(&f.m), AdjacencyMatrix::build_alt(&f.m))),
        30 => drop((AdjacencyList::wheel(n), AdjacencyMap::biclique(3, n), AdjacencyMatrix::star(n), EdgeList::cycle(n), AdjacencyMap::circuit(n), AdjacencyList::path(n))),
        31 => drop((AdjacencyList::random_tournament(n, rep), AdjacencyMatrix::erdos_renyi(n, 0.4, rep), EdgeList::random_recursive_tree(n, rep), AdjacencyMap::random_recursive_tree(n, rep))),
        32 => drop(BfsPred::new(&f.al, 0..1).predecessors().search(n - 1, 0)),
        33 => drop(DistanceMatrix::<isize>::new(n, isize::MAX)),
        34 => {
            let mut c = f.al.clone();
            c.add_arc(0, n + 5);
        }
        35 => drop(Bfs::new(&f.mx, [n + 100].into_iter()).count()),
        36 => drop(f.am.filter_vertices(|v| v > 1).union(&f.am2)),
        37 => {
            let mut c = f.am.clone();
            for i in 0..6 {
                c.add_arc(i, 200 + i);
                let _ = c.remove_arc(i, 200 + i);
            }
        }
        38 => {
            let mut c = f.mx.clone();
            for i in 1..n {
                c.toggle(0, i);
            }
        }
        _ => drop((f.al.union(&f.al2), f.al2.union(&f.al))),
    });
}

fn leak_case(idx: u64, seed: u64, o: &mut CaseOut) {
    let k = (idx as usize) % LEAK_OPS.len();
    let mut r = Rng::for_case(1313, seed, idx);
    let f = fixtures(&mut r);
    for i in 0..3 {
        leak_op(k, &f, i);
    }
    let (b0, _) = alloc::live_settled();
    for i in 0..8 {
        leak_op(k, &f, 10 + i);
    }
    let (b1, _) = alloc::live_settled();
    for i in 0..32 {
        leak_op(k, &f, 100 + i);
    }
    let (b2, _) = alloc::live_settled();
    let (d1, d2) = (b1 - b0, b2 - b1);
    o.check(!(d1 > 0 && d2 > 0 && d2 >= 2 * d1), "heap-grows-with-repetitions", || {
        format!("{}: live heap grew by {d1} bytes over 8 calls and by {d2} bytes over 32 more calls", LEAK_OPS[k])
    });
    let mut fp = Fp::new();
    fp.s("leak").us(k);
    f.m.fingerprint(&mut fp);
    o.fp = fp.0;
    o.nontrivial = true;
    o.bump("part=leak");
    o.bumpn("leak_op", k);
    if o.want_desc {
        o.desc = format!("heap growth of {} on D: {} E: {}", LEAK_OPS[k], f.m.describe(), f.m2.describe());
    }
}

// ---- short programs --------------------------------------------------------

enum Val {
    AL(AdjacencyList),
    AM(AdjacencyMap),
    MX(AdjacencyMatrix),
    EL(EdgeList),
    WU(AdjacencyListWeighted<usize>),
    WI(AdjacencyListWeighted<isize>),
}

fn val_model(v: &Val) -> Model {
    fn of<D: Vertices + Arcs>(d: &D) -> Model {
        let mut m = Model::default();
        for v in d.vertices() {
            m.verts.insert(v);
        }
        for (u, v) in d.arcs() {
            m.arcs.insert((u, v), 1);
        }
        m
    }
    match v {
        Val::AL(d) => of(d),
        Val::AM(d) => of(d),
        Val::MX(d) => of(d),
        Val::EL(d) => of(d),
        Val::WU(d) => of(d),
        Val::WI(d) => of(d),
    }
}

fn program(r: &mut Rng, max: usize, log: &mut Vec<String>) {
    let mut pool: Vec<Val> = Vec::new();
    // mostly tiny digraphs, sometimes one that needs several 64-bit blocks
    let m0 = if max >= 7 && r.chance(0.3) {
        let f = r.below(gen::FAMILIES.len());
        let n = r.range(9, 24);
        gen::family(r, f, n)
    } else {
        small_model(r, max)
    };
    pool.push(match r.below(6) {
        0 => Val::AL(AdjacencyList::build(&m0)),
        1 => Val::AM(AdjacencyMap::build(&m0)),
        2 => Val::AM(build_map_any(&gen::sparsify(r, &m0))),
        3 => Val::MX(AdjacencyMatrix::build(&m0)),
        4 => Val::EL(EdgeList::build(&m0)),
        _ => Val::WU(build_w_usize(&w_usize(r, &m0))),
    });
    log.push(format!("start {}", val_model(&pool[0]).describe()));
    let steps = r.range(2, 6);
    for _ in 0..steps {
        let i = r.below(pool.len());
        let j = r.below(pool.len());
        let m = val_model(&pool[i]);
        let (a, b) = (arg(r, &m), arg(r, &m));
        let op = r.below(10);
        let mut new: Option<Val> = None;
        match op {
            0 => {
                // traversal
                let t = r.below(TRAV.len());
                let s = srcs(r, &m);
                log.push(format!("#{i}.{}(sources={s:?}, target={a})", TRAV[t]));
                match &pool[i] {
                    Val::AL(d) => traverse(d, t, &s, a),
                    Val::AM(d) => traverse(d, t, &s, a),
                    Val::MX(d) => traverse(d, t, &s, a),
                    Val::EL(d) => traverse(d, t, &s, a),
                    Val::WU(d) => traverse(d, t, &s, a),
                    Val::WI(d) => traverse(d, t, &s, a),
                }
            }
            1 => {
                let q = r.below(QUERY.len());
                let walk = vec![a, b, a];
                log.push(format!("#{i}.{}({a},{b})", QUERY[q]));
                match &pool[i] {
                    Val::AL(d) => query(d, q, a, b, &walk),
                    Val::AM(d) => query(d, q, a, b, &walk),
                    Val::MX(d) => query(d, q, a, b, &walk),
                    Val::EL(d) => query(d, q, a, b, &walk),
                    Val::WU(d) => query(d, q, a, b, &walk),
                    Val::WI(d) => query(d, q, a, b, &walk),
                }
            }
            2 => {
                log.push(format!("#{i}.add_arc({a},{b}); remove_arc({b},{a}); remove_arc({a},{b})"));
                match &mut pool[i] {
                    Val::AL(d) => mutate(d, a, b),
                    Val::AM(d) => mutate(d, a, b),
                    Val::MX(d) => {
                        mutate(d, a, b);
                        let _ = catch(|| d.toggle(b, a));
                    }
                    Val::EL(d) => mutate(d, a, b),
                    Val::WU(d) => {
                        let _ = catch(|| d.add_arc_weighted(a, b, 2));
                    }
                    Val::WI(d) => {
                        let _ = catch(|| d.add_arc_weighted(a, b, -2));
                    }
                }
            }
            3 => {
                let k = r.below(2);
                log.push(format!("#new = #{i}.{}()", ALGEBRA[k]));
                new = match &pool[i] {
                    Val::AL(d) => catch(|| if k == 0 { d.complement() } else { d.converse() }).ok().map(Val::AL),
                    Val::AM(d) => catch(|| if k == 0 { d.complement() } else { d.converse() }).ok().map(Val::AM),
                    Val::MX(d) => catch(|| if k == 0 { d.complement() } else { d.converse() }).ok().map(Val::MX),
                    Val::EL(d) => catch(|| if k == 0 { d.complement() } else { d.converse() }).ok().map(Val::EL),
                    Val::WU(d) => catch(|| d.converse()).ok().map(Val::WU),
                    Val::WI(d) => catch(|| d.converse()).ok().map(Val::WI),
                };
            }
            4 => {
                log.push(format!("#new = #{i}.union(#{j})"));
                new = match (&pool[i], &pool[j]) {
                    (Val::AL(x), Val::AL(y)) => catch(|| x.union(y)).ok().map(Val::AL),
                    (Val::AM(x), Val::AM(y)) => catch(|| x.union(y)).ok().map(Val::AM),
                    (Val::MX(x), Val::MX(y)) => catch(|| x.union(y)).ok().map(Val::MX),
                    (Val::EL(x), Val::EL(y)) => catch(|| x.union(y)).ok().map(Val::EL),
                    _ => None,
                };
            }
            5 => {
                if let Val::AM(d) = &pool[i] {
                    let k = r.below(4);
                    log.push(format!("#new = #{i}.filter_vertices(pred {k} with {a})"));
                    new = catch(|| match k {
                        0 => d.filter_vertices(|v| v >= a),
                        1 => d.filter_vertices(|v| v != a),
                        2 => d.filter_vertices(|v| v % 2 == 1),
                        _ => d.filter_vertices(|v| v < a),
                    })
                    .ok()
                    .map(Val::AM);
                } else {
                    // convert into a map so that later steps can filter
                    log.push(format!("#new = AdjacencyMap::from(#{i})"));
                    new = match &pool[i] {
                        Val::AL(d) => catch(|| AdjacencyMap::from(d.clone())).ok().map(Val::AM),
                        Val::MX(d) => catch(|| AdjacencyMap::from(d.clone())).ok().map(Val::AM),
                        Val::EL(d) => catch(|| AdjacencyMap::from(d.clone())).ok().map(Val::AM),
                        _ => None,
                    };
                }
            }
            6 => {
                let k = r.below(5);
                log.push(format!("#new = convert #{i} into type {k}"));
                macro_rules! conv {
                    ($d:expr) => {
                        match k {
                            0 => catch(|| AdjacencyList::from($d.clone())).ok().map(Val::AL),
                            1 => catch(|| AdjacencyMatrix::from($d.clone())).ok().map(Val::MX),
                            2 => catch(|| EdgeList::from($d.clone())).ok().map(Val::EL),
                            3 => catch(|| AdjacencyListWeighted::<usize>::from($d.clone())).ok().map(Val::WU),
                            _ => catch(|| AdjacencyListWeighted::<isize>::from($d.clone())).ok().map(Val::WI),
                        }
                    };
                }
                new = match &pool[i] {
                    Val::AM(d) => conv!(d),
                    Val::AL(d) => match k {
                        0 => catch(|| AdjacencyMap::from(d.clone())).ok().map(Val::AM),
                        1 => catch(|| AdjacencyMatrix::from(d.clone())).ok().map(Val::MX),
                        2 => catch(|| EdgeList::from(d.clone())).ok().map(Val::EL),
                        3 => catch(|| AdjacencyListWeighted::<usize>::from(d.clone())).ok().map(Val::WU),
                        _ => catch(|| AdjacencyListWeighted::<isize>::from(d.clone())).ok().map(Val::WI),
                    },
                    Val::MX(d) => match k {
                        0 => catch(|| AdjacencyList::from(d.clone())).ok().map(Val::AL),
                        1 => catch(|| AdjacencyMap::from(d.clone())).ok().map(Val::AM),
                        2 => catch(|| EdgeList::from(d.clone())).ok().map(Val::EL),
                        3 => catch(|| AdjacencyListWeighted::<usize>::from(d.clone())).ok().map(Val::WU),
                        _ => catch(|| AdjacencyListWeighted::<isize>::from(d.clone())).ok().map(Val::WI),
                    },
                    Val::EL(d) => match k {
                        0 => catch(|| AdjacencyList::from(d.clone())).ok().map(Val::AL),
                        1 => catch(|| AdjacencyMatrix::from(d.clone())).ok().map(Val::MX),
                        2 => catch(|| AdjacencyMap::from(d.clone())).ok().map(Val::AM),
                        3 => catch(|| AdjacencyListWeighted::<usize>::from(d.clone())).ok().map(Val::WU),
                        _ => catch(|| AdjacencyListWeighted::<isize>::from(d.clone())).ok().map(Val::WI),
                    },
                    _ => None,
                };
            }
            7 => {
                log.push(format!("#{i}: weighted / map algorithms (source {a})"));
                match &pool[i] {
                    Val::WU(d) => {
                        let _ = catch(|| DijkstraDist::new(d, [a].into_iter()).distances());
                        let _ = catch(|| DijkstraPred::new(d, [a, b].into_iter()).shortest_path(|v| v == b));
                        let _ = catch(|| Dijkstra::new(d, [a].into_iter()).take(CAP).count());
                    }
                    Val::WI(d) => {
                        let _ = catch(|| BellmanFordMoore::new(d, a).distances().map(<[isize]>::to_vec));
                        let _ = catch(|| FloydWarshall::new(d).distances().center());
                    }
                    Val::AM(d) => {
                        // circuit enumeration is exponential: small or sparse inputs only
                        if d.order() <= 8 || d.size() <= 2 * d.order() {
                            let _ = catch(|| Johnson75::new(d).circuits().len());
                        }
                        let _ = catch(|| Tarjan::new(d).components().len());
                        let _ = catch(|| (d.is_semicomplete(), d.is_tournament()));
                    }
                    Val::AL(d) => {
                        let _ = catch(|| (d.is_semicomplete(), d.is_tournament(), d.degree_sequence().count()));
                    }
                    Val::MX(d) => {
                        let _ = catch(|| (d.is_semicomplete(), d.is_complete()));
                    }
                    Val::EL(d) => {
                        let _ = catch(|| (d.is_semicomplete(), d.is_complete()));
                    }
                }
            }
            8 => {
                // overwrite value #i by clone_from(a fresh digraph of the same type and ANOTHER order),
                // then keep using ids that were valid before
                let n2 = *r.pick(&[1usize, 2, 3, 5, 8, 9, 12, 24]);
                let f2 = r.below(gen::FAMILIES.len());
                let src = gen::family(r, f2, n2);
                log.push(format!("#{i}.clone_from(fresh order {n2}); then add_arc({a},{b}) on it and on a clone"));
                match &mut pool[i] {
                    Val::AL(p) => {
                        p.clone_from(&AdjacencyList::build(&src));
                        mutate(p, a, b);
                        traverse(p, 0, &[a], b);
                    }
                    Val::AM(p) => {
                        p.clone_from(&AdjacencyMap::build(&src));
                        mutate(p, a, b);
                        traverse(p, 7, &[a], b);
                    }
                    Val::MX(p) => {
                        p.clone_from(&AdjacencyMatrix::build(&src));
                        mutate(p, a, b);
                        let _ = catch(|| p.toggle(b, a));
                        let _ = catch(|| p.has_arc(a, b));
                        // a clone has an exactly sized buffer
                        let mut c = p.clone();
                        mutate(&mut c, a, b);
                        let _ = catch(|| c.toggle(b, a));
                        let _ = catch(|| c.arcs().count());
                        traverse(&c, 0, &[a], b);
                    }
                    Val::EL(p) => {
                        p.clone_from(&EdgeList::build(&src));
                        mutate(p, a, b);
                        traverse(p, 3, &[a], b);
                    }
                    Val::WU(p) => {
                        p.clone_from(&build_w_usize(&src));
                        let _ = catch(|| p.add_arc_weighted(a, b, 1));
                        let _ = catch(|| DijkstraDist::new(p, [a].into_iter()).distances());
                    }
                    Val::WI(p) => {
                        p.clone_from(&build_w_isize(&src));
                        let _ = catch(|| p.add_arc_weighted(a, b, -1));
                        let _ = catch(|| BellmanFordMoore::new(p, a).distances().map(<[isize]>::to_vec));
                    }
                }
            }
            _ => {
                // a fresh generator value
                let n = if max >= 7 && r.chance(0.3) { r.range(9, 24) } else { r.range(1, max) };
                let s = r.next();
                let g = r.below(4);
                log.push(format!("#new = generator {g} order {n}"));
                new = match g {
                    0 => catch(|| AdjacencyMap::random_tournament(n, s)).ok().map(Val::AM),
                    1 => catch(|| AdjacencyList::erdos_renyi(n, 0.4, s)).ok().map(Val::AL),
                    2 => catch(|| AdjacencyMap::erdos_renyi(n, 0.7, s)).ok().map(Val::AM),
                    _ => catch(|| AdjacencyMatrix::random_recursive_tree(n, s)).ok().map(Val::MX),
                };
            }
        }
        if let Some(v) = new {
            pool.push(v);
        }
    }
}

pub fn case(idx: u64, seed: u64, p: &Params, o: &mut CaseOut) {
    let part = p.str("part", "probe");
    let max = p.usize("max_order", 7);
    match part.as_str() {
        "leak" => leak_case(idx, seed, o),
        "prog" => {
            let mut r = Rng::for_case(1314, seed, idx);
            let mut log = Vec::new();
            program(&mut r, max, &mut log);
            o.comparisons += 1;
            let mut fp = Fp::new();
            for l in &log {
                fp.s(l);
            }
            o.fp = fp.0;
            o.nontrivial = log.iter().any(|l| l.contains("1048576") || l.contains("1000") || l.contains("V=["));
            o.bump("part=prog");
            o.bumpn("steps", log.len() - 1);
            if o.want_desc {
                o.desc = format!("program: {}", log.join("; "));
            }
        }
        _ => {
            let np = n_probes();
            let mut id = (idx as usize) % np;
            if idx % 13 == 5 {
                // the pair predicates on two different non-contiguous maps get a larger share
                id = (TRAV.len() + QUERY.len() + 1) * VARIANTS.len() + 3 * 5 + 2;
            }
            let mut r = Rng::for_case(1315, seed, idx);
            let d = probe(id, &mut r, max);
            o.comparisons += 1;
            let mut fp = Fp::new();
            fp.s(&d);
            o.fp = fp.0;
            o.nontrivial = d.contains("1048576") || d.contains("1000") || d.contains("V=[") || d.contains("2^32") || d.contains("order-0");
            o.bump("part=probe");
            o.bumpn("probe", id);
            if o.want_desc {
                o.desc = format!("probe {id}/{np}: {d}");
            }
        }
    }
}
