//! C11 — complement, converse, union and vertex filtering compute their set
//! definitions.

use crate::ctx::CaseOut;
use crate::events::check_tiling;
use crate::gen;
use crate::model::Model;
use crate::obs::{observe, observe_w};
use crate::reprs::*;
use crate::rng::{mix, Fp, Rng};
use crate::Params;
use graaf::*;

pub fn hook_begin(p: &Params, idx: u64) {
    let ds = p.u64("delay", 0);
    graaf::verif::set_delay_seed(if ds == 0 { 0 } else { mix(ds ^ idx) | 1 });
    graaf::verif::reset();
}

pub fn hook_end() -> Vec<(u64, u64, usize, usize)> {
    let ev = graaf::verif::drain();
    graaf::verif::set_delay_seed(0);
    ev
}

fn unary_fixed<D>(d: &D, m: &Model, o: &mut CaseOut, p: &Params, idx: u64, name: &str, site: Option<u64>)
where
    D: Unweighted + Complement + Converse,
{
    let before = d.clone();
    hook_begin(p, idx);
    let c = d.complement();
    let ev = hook_end();
    observe(&c, &m.complement(), o, &format!("{name}::complement"), true);
    if let Some(s) = site {
        if let Some(t) = check_tiling(&ev, s, m.n(), false, o, &format!("{name}::complement")) {
            o.sigs.push((s, t.signature));
            o.bumpn("workers", t.workers);
        } else {
            o.bump("hook_log_empty");
        }
    }
    o.check(c.complement() == *d, &format!("{name}::complement-not-an-involution"), || "complement(complement(D)) != D".into());
    let v = d.converse();
    observe(&v, &m.converse(), o, &format!("{name}::converse"), true);
    o.check(v.converse() == *d, &format!("{name}::converse-not-an-involution"), || "converse(converse(D)) != D".into());
    o.check(*d == before, &format!("{name}:operand-changed"), || "operand != its pre-call clone".into());
}

fn model_union_fixed(a: &Model, b: &Model) -> Model {
    // fixed-order types: V = 0..max(order)
    let mut u = a.union(b);
    let n = a.n().max(b.n());
    u.verts = (0..n).collect();
    u
}

fn union_fixed<D>(a: &D, b: &D, c: &D, ma: &Model, mb: &Model, mc: &Model, o: &mut CaseOut, p: &Params, idx: u64, name: &str, site: Option<u64>)
where
    D: Unweighted + Union,
{
    let (ca, cb) = (a.clone(), b.clone());
    let want = model_union_fixed(ma, mb);
    hook_begin(p, idx);
    let u = a.union(b);
    let ev = hook_end();
    observe(&u, &want, o, &format!("{name}::union"), true);
    if let Some(s) = site {
        if let Some(t) = check_tiling(&ev, s, want.n(), false, o, &format!("{name}::union")) {
            o.sigs.push((s, t.signature));
            o.bumpn("workers", t.workers);
        } else {
            o.bump("hook_log_empty");
        }
    }
    o.check(b.union(a) == u, &format!("{name}::union-not-commutative"), || "A u B != B u A".into());
    o.check(a.union(a) == *a, &format!("{name}::union-not-idempotent"), || "A u A != A".into());
    o.check(u.union(c) == a.union(&b.union(c)), &format!("{name}::union-not-associative"), || "(A u B) u C != A u (B u C)".into());
    observe(&u.union(c), &model_union_fixed(&want, mc), o, &format!("{name}::union3"), false);
    o.check(*a == ca && *b == cb, &format!("{name}:operand-changed"), || "an operand != its pre-call clone".into());
}

fn map_case(r: &mut Rng, ma: &Model, mb: &Model, mc: &Model, o: &mut CaseOut, p: &Params, idx: u64) {
    let name = "AdjacencyMap";
    let (a, b, c) = (build_map_any(ma), build_map_any(mb), build_map_any(mc));
    let (ca, cb) = (a.clone(), b.clone());
    // complement / converse
    let x = a.complement();
    observe(&x, &ma.complement(), o, "AdjacencyMap::complement", true);
    o.check(x.complement() == a, "AdjacencyMap::complement-not-an-involution", || "complement(complement(D)) != D".into());
    let v = a.converse();
    observe(&v, &ma.converse(), o, "AdjacencyMap::converse", true);
    o.check(v.converse() == a, "AdjacencyMap::converse-not-an-involution", || "converse(converse(D)) != D".into());
    // union
    let want = ma.union(mb);
    hook_begin(p, idx);
    let u = a.union(&b);
    let ev = hook_end();
    observe(&u, &want, o, "AdjacencyMap::union", true);
    let tl = check_tiling(&ev, graaf::verif::AM_UNION_LHS, ma.n(), true, o, "AdjacencyMap::union(lhs)");
    let tr = check_tiling(&ev, graaf::verif::AM_UNION_RHS, mb.n(), true, o, "AdjacencyMap::union(rhs)");
    match (tl, tr) {
        (Some(t), Some(t2)) => {
            o.sigs.push((graaf::verif::AM_UNION_LHS, t.signature ^ t2.signature.rotate_left(17)));
            o.bumpn("workers", t.workers);
        }
        _ => o.bump("hook_log_empty"),
    }
    o.check(b.union(&a) == u, "AdjacencyMap::union-not-commutative", || "A u B != B u A".into());
    o.check(a.union(&a) == a, "AdjacencyMap::union-not-idempotent", || "A u A != A".into());
    o.check(u.union(&c) == a.union(&b.union(&c)), "AdjacencyMap::union-not-associative", || "(A u B) u C != A u (B u C)".into());
    observe(&u.union(&c), &want.union(mc), o, "AdjacencyMap::union3", false);
    // split A at a vertex k (both parts keep k) and glue the parts back
    {
        let vs = ma.vert_list();
        let k = *r.pick(&vs);
        let lower = ma.induced(|v| v <= k);
        let upper = ma.induced(|v| v >= k);
        let (dl, du) = (a.filter_vertices(|v| v <= k), a.filter_vertices(|v| v >= k));
        let want = lower.union(&upper);
        observe(&dl.union(&du), &want, o, "AdjacencyMap::union(parts split at a vertex)", true);
        observe(&du.union(&dl), &want, o, "AdjacencyMap::union(parts split at a vertex, swapped)", true);
    }
    // filter_vertices
    let vs = ma.vert_list();
    let k = *r.pick(&vs);
    let pick: Vec<usize> = vs.iter().copied().filter(|_| r.chance(0.5)).collect();
    let preds: Vec<(&str, Box<dyn Fn(usize) -> bool>)> = vec![
        ("all", Box::new(|_| true)),
        ("threshold", Box::new(move |v| v >= k)),
        ("even", Box::new(|v| v % 2 == 0)),
        ("random", Box::new(move |v| pick.contains(&v))),
        ("none", Box::new(|_| false)),
    ];
    for (pn, f) in preds {
        let want = ma.induced(&f);
        if want.n() == 0 {
            // the trait documents a panic, the implementation returns an
            // order-0 map: either is accepted and nothing is counted
            let _ = crate::ctx::catch(|| a.filter_vertices(&f));
            continue;
        }
        let got = a.filter_vertices(&f);
        observe(&got, &want, o, &format!("{name}::filter_vertices({pn})"), true);
    }
    o.check(a == ca && b == cb, "AdjacencyMap:operand-changed", || "an operand != its pre-call clone".into());
}

pub const OPS: [&str; 6] = ["AdjacencyList", "AdjacencyMap", "AdjacencyMap(non-contiguous)", "AdjacencyMatrix", "EdgeList", "AdjacencyListWeighted::converse"];

pub fn case(idx: u64, seed: u64, p: &Params, o: &mut CaseOut) {
    let mut r = Rng::for_case(11, seed, idx);
    let max = p.usize("max_order", 40);
    let only = p.usize("kind", usize::MAX);
    let kind = if only < OPS.len() { only } else { *r.pick(&[0usize, 0, 1, 1, 2, 2, 2, 3, 4, 5]) };
    let order = |r: &mut Rng| -> usize {
        if max >= 40 && r.below(25) == 0 {
            // word and double-word boundaries of bitset-style implementations
            return *r.pick(&[63usize, 64, 65, 127, 128, 129]);
        }
        match r.below(10) {
            0..=5 => r.range(1, max.min(9)),
            6..=7 => r.range(1, max.min(24)),
            _ => r.range(1, max),
        }
    };
    let n1 = order(&mut r);
    let n2 = match r.below(4) {
        0 => n1,
        1 => (n1 + 1).min(max),
        _ => order(&mut r),
    };
    let n3 = order(&mut r);
    let f1 = r.below(gen::FAMILIES.len());
    let mut ma = gen::family(&mut r, f1, n1);
    let f2 = r.below(gen::FAMILIES.len());
    let mut mb = if r.chance(0.15) && n2 == n1 { ma.clone() } else { gen::family(&mut r, f2, n2) };
    let f3 = r.below(gen::FAMILIES.len());
    let mut mc = gen::family(&mut r, f3, n3);
    match kind {
        0 => {
            let (a, b, c) = (AdjacencyList::build(&ma), AdjacencyList::build(&mb), AdjacencyList::build(&mc));
            unary_fixed(&a, &ma, o, p, idx, "AdjacencyList", Some(graaf::verif::AL_COMPLEMENT));
            union_fixed(&a, &b, &c, &ma, &mb, &mc, o, p, idx, "AdjacencyList", Some(graaf::verif::AL_UNION));
        }
        1 => map_case(&mut r, &ma, &mb, &mc, o, p, idx),
        2 => {
            ma = gen::sparsify(&mut r, &ma);
            if r.chance(0.7) {
                mb = gen::sparsify(&mut r, &mb);
            }
            if r.chance(0.5) {
                mc = gen::sparsify(&mut r, &mc);
            }
            if r.chance(0.12) {
                ma = gen::with_max_id(&ma);
                if r.chance(0.5) {
                    mb = gen::with_max_id(&mb);
                }
                o.bump("vertex_id_usize::MAX");
            }
            map_case(&mut r, &ma, &mb, &mc, o, p, idx);
        }
        3 => {
            let (a, b, c) = (AdjacencyMatrix::build(&ma), AdjacencyMatrix::build(&mb), AdjacencyMatrix::build(&mc));
            unary_fixed(&a, &ma, o, p, idx, "AdjacencyMatrix", None);
            union_fixed(&a, &b, &c, &ma, &mb, &mc, o, p, idx, "AdjacencyMatrix", None);
        }
        4 => {
            let (a, b, c) = (EdgeList::build(&ma), EdgeList::build(&mb), EdgeList::build(&mc));
            unary_fixed(&a, &ma, o, p, idx, "EdgeList", None);
            union_fixed(&a, &b, &c, &ma, &mb, &mc, o, p, idx, "EdgeList", None);
        }
        _ => {
            if r.chance(0.5) {
                gen::weights(&mut r, &mut ma, gen::WClass::Small);
                let d = build_w_usize(&ma);
                let before = d.clone();
                let v = d.converse();
                observe(&v, &ma.converse(), o, "AdjacencyListWeighted<usize>::converse", true);
                observe_w(&v, &ma.converse(), o, "AdjacencyListWeighted<usize>::converse", |w| *w as i64);
                o.check(v.converse() == d, "AdjacencyListWeighted<usize>::converse-not-an-involution", || "converse(converse(D)) != D".into());
                o.check(d == before, "AdjacencyListWeighted<usize>:operand-changed", || "operand changed".into());
            } else {
                gen::weights(&mut r, &mut ma, gen::WClass::MixedNeg);
                let d = build_w_isize(&ma);
                let before = d.clone();
                let v = d.converse();
                observe(&v, &ma.converse(), o, "AdjacencyListWeighted<isize>::converse", true);
                observe_w(&v, &ma.converse(), o, "AdjacencyListWeighted<isize>::converse", |w| *w as i64);
                o.check(v.converse() == d, "AdjacencyListWeighted<isize>::converse-not-an-involution", || "converse(converse(D)) != D".into());
                o.check(d == before, "AdjacencyListWeighted<isize>:operand-changed", || "operand changed".into());
            }
        }
    }
    let t = std::thread::available_parallelism().map_or(1, |x| x.get());
    let mut fp = Fp::new();
    fp.us(kind);
    ma.fingerprint(&mut fp);
    if kind != 5 {
        mb.fingerprint(&mut fp);
        mc.fingerprint(&mut fp);
    }
    o.fp = fp.0;
    o.nontrivial = ma.n().max(mb.n()) > t || ma.n() != mb.n() || !ma.is_contig();
    o.bump(OPS[kind]);
    o.bumpn("threads_available", t);
    o.bumpn("order/8", ma.n() / 8);
    if o.want_desc {
        o.desc = if kind == 5 {
            format!("{} D: {}", OPS[kind], ma.describe())
        } else {
            format!("{} A: {} | B: {} | C: {} (available_parallelism {t})", OPS[kind], ma.describe(), mb.describe(), mc.describe())
        };
    }
}
