//! C18 — DistanceMatrix metrics equal their definitions for every matrix.

use crate::ctx::CaseOut;
use crate::props::c07;
use crate::reprs::*;
use crate::rng::{Fp, Rng};
use crate::Params;
use graaf::*;
use std::fmt::Debug;

fn check<W: Copy + Default + Ord + std::hash::Hash + std::fmt::Debug + Send + Sync + 'static>(dm: &DistanceMatrix<W>, rows: &[Vec<W>], inf: W, o: &mut CaseOut, tag: &str) -> bool {
    let n = rows.len();
    o.eq(&format!("{tag}:order"), &dm.order, &n);
    // indexing
    let mut bad = None;
    for u in 0..n {
        for v in 0..n {
            if crate::ctx::via_graaf(|| dm[(u, v)] != rows[u][v] || dm[u * n + v] != rows[u][v]) {
                bad = Some((u, v));
            }
        }
    }
    o.check(bad.is_none(), &format!("{tag}:index"), || format!("dm[{:?}] != row/column entry", bad.unwrap()));
    // range views
    let flat: Vec<W> = rows.iter().flatten().copied().collect();
    let all_ok = crate::ctx::via_graaf(|| dm[..] == flat[..]);
    o.check(all_ok, &format!("{tag}:index(..)"), || crate::ctx::via_graaf(|| format!("{:?}", &dm[..])));
    let (a, b) = (n / 2, n * n - n / 3);
    let part_ok = crate::ctx::via_graaf(|| dm[a..b] == flat[a..b]);
    o.check(part_ok, &format!("{tag}:index({a}..{b})"), || crate::ctx::via_graaf(|| format!("{:?}", &dm[a..b])));
    let ecc: Vec<W> = rows.iter().map(|r| *r.iter().max().unwrap()).collect();
    o.eq(&format!("{tag}:eccentricities"), &dm.eccentricities().copied().collect::<Vec<_>>(), &ecc);
    let diam = *ecc.iter().max().unwrap();
    o.eq(&format!("{tag}:diameter"), dm.diameter(), &diam);
    let min = *ecc.iter().min().unwrap();
    let center: Vec<usize> = (0..n).filter(|&i| ecc[i] == min).collect();
    o.eq(&format!("{tag}:center"), &dm.center(), &center);
    let periphery: Vec<usize> = (0..n).filter(|&i| ecc[i] == diam).collect();
    o.eq(&format!("{tag}:periphery"), &dm.periphery().collect::<Vec<_>>(), &periphery);
    o.eq(&format!("{tag}:is_connected"), &dm.is_connected(), &ecc.iter().all(|e| *e != inf));
    center.len() >= 2 || periphery.len() >= 2
}

pub fn case(idx: u64, seed: u64, p: &Params, o: &mut CaseOut) {
    let mut r = Rng::for_case(18, seed, idx);
    let max = p.usize("max_order", 12);
    let n = match r.below(8) {
        0 => 1,
        1 => 2,
        2 if max >= 12 => *r.pick(&[15usize, 16, 17, 31, 33, 64, 65]),
        _ => r.range(1, max),
    };
    let kind = r.below(6);
    let mut fp = Fp::new();
    fp.us(kind).us(n);
    let tie;
    let desc;
    match kind {
        0 | 1 | 2 => {
            // usize matrix written through IndexMut, tiny value sets (ties)
            // any value may serve as "infinity"; the bit patterns vary on purpose
            let x = r.next() as usize;
            let inf = *r.pick(&[usize::MAX, usize::MAX, 9, 100, 255, 256, 257, 65535, 65536, u32::MAX as usize, 1 << 32, 0x0101_0101_0101_0101, 0x00FF_00FF_00FF_00FF, usize::MAX / 2, x | 8]);
            let vals: Vec<usize> = match r.below(4) {
                0 => vec![0, 1, inf],
                1 => vec![0, 1, 2, 3],
                2 => vec![inf],
                _ => vec![0, 1, 2, 5, 7, inf],
            };
            let vals: Vec<usize> = vals.into_iter().filter(|&v| v <= inf).collect();
            let mut dm = DistanceMatrix::<usize>::new(n, inf);
            o.check(dm.dist.len() == n * n && dm.dist.iter().all(|&x| x == inf) && dm.infinity == inf, "new:not-filled-with-infinity", || format!("{:?}", dm.dist));
            let mut rows = vec![vec![inf; n]; n];
            let all_inf_row = if r.chance(0.2) { Some(r.below(n)) } else { None };
            let by_rows = r.chance(0.25);
            for u in 0..n {
                for v in 0..n {
                    let x = if Some(u) == all_inf_row { inf } else { *r.pick(&vals) };
                    rows[u][v] = x;
                    if by_rows {
                        continue;
                    }
                    if r.chance(0.5) {
                        crate::ctx::via_graaf(|| dm[(u, v)] = x);
                    } else {
                        crate::ctx::via_graaf(|| dm[u * n + v] = x);
                    }
                }
                if by_rows {
                    // IndexMut over ranges: a whole row, or everything written so far again
                    crate::ctx::via_graaf(|| dm[u * n..(u + 1) * n].copy_from_slice(&rows[u]));
                    if u == n - 1 {
                        let flat: Vec<usize> = rows.iter().flatten().copied().collect();
                        crate::ctx::via_graaf(|| dm[..].copy_from_slice(&flat));
                    }
                }
            }
            for row in &rows {
                for &x in row {
                    fp.us(x);
                }
            }
            tie = check(&dm, &rows, inf, o, "usize");
            {
                // clone_from into a matrix of the same order but another infinity value
                let mut dst = DistanceMatrix::<usize>::new(n, inf.wrapping_sub(3).max(1));
                dst.clone_from(&dm);
                let _ = check(&dst, &rows, inf, o, "usize(clone_from)");
                o.check(dst == dm && dst.infinity == inf, "clone_from-result-differs", || format!("infinity {} vs {}", dst.infinity, inf));
                let mut dst2 = DistanceMatrix::<usize>::new(n + 1, inf);
                dst2.clone_from(&dm);
                o.check(dst2 == dm, "clone_from-result-differs(other order)", String::new);
            }
            desc = format!("usize matrix order {n} infinity {inf} rows {rows:?}");
        }
        3 | 4 => {
            let inf = *r.pick(&[isize::MAX, isize::MAX, isize::MAX, 1000, 65535, 257, -1, -65536, isize::MIN + 20]);
            let vals: Vec<isize> = match r.below(3) {
                0 => vec![-3, 0, 0, 4, inf],
                1 => vec![-1, 0, 1],
                _ => vec![-10, -5, 0, 5, 10, inf, inf],
            };
            let mut vals: Vec<isize> = vals.into_iter().filter(|&v| v <= inf).collect();
            vals.extend([inf, inf - 1, inf - 7]);
            let mut dm = DistanceMatrix::<isize>::new(n, inf);
            o.check(dm.dist.len() == n * n && dm.dist.iter().all(|&x| x == inf) && dm.infinity == inf, "new:not-filled-with-infinity", || format!("infinity {inf}: {:?}", dm.dist));
            let mut rows = vec![vec![inf; n]; n];
            for u in 0..n {
                for v in 0..n {
                    let x = *r.pick(&vals);
                    rows[u][v] = x;
                    crate::ctx::via_graaf(|| dm[(u, v)] = x);
                }
            }
            for row in &rows {
                for &x in row {
                    fp.i(x as i64);
                }
            }
            tie = check(&dm, &rows, inf, o, "isize");
            desc = format!("isize matrix order {n} rows {rows:?}");
        }
        _ => {
            // matrices produced by FloydWarshall
            let (m, wf, fam) = c07::gen_case(&mut r, max, false);
            if m.has_negative_circuit() {
                o.skipped = true;
                return;
            }
            let d = build_w_isize(&m);
            let mut fw = FloydWarshall::new(&d);
            let dm = fw.distances();
            let rows: Vec<Vec<isize>> = (0..m.n()).map(|u| c07::ref_row(&m, u).unwrap()).collect();
            m.fingerprint(&mut fp);
            tie = check(dm, &rows, isize::MAX, o, "FloydWarshall");
            desc = format!("FloydWarshall matrix of weights={wf} family={fam} {}", m.describe());
        }
    }
    o.fp = fp.0;
    o.nontrivial = tie;
    o.bumpn("kind", kind);
    o.bumpn("order", n);
    if o.want_desc {
        o.desc = desc;
    }
}
