//! C03 — Dijkstra reports exact shortest distances and visits each reachable
//! vertex once.

use crate::ctx::CaseOut;
use crate::gen::{self, WClass};
use crate::model::Model;
use crate::reprs::*;
use crate::rng::{Fp, Rng};
use crate::Params;
use graaf::*;
use std::cmp::Reverse;
use std::collections::{BTreeMap, BTreeSet, BinaryHeap};

/// Reference lazy-heap simulation: does a superseded entry get popped while
/// the heap still holds other entries?
pub fn superseded_pop(m: &Model, sources: &[usize]) -> bool {
    let mut dist: BTreeMap<usize, i64> = BTreeMap::new();
    let mut heap = BinaryHeap::new();
    for &s in sources {
        dist.insert(s, 0);
        heap.push((Reverse(0i64), s));
    }
    while let Some((Reverse(dv), v)) = heap.pop() {
        if dist[&v] != dv {
            if !heap.is_empty() {
                return true;
            }
            continue;
        }
        for (x, w) in m.out_w(v) {
            let c = dv + w;
            if dist.get(&x).is_none_or(|&dx| c < dx) {
                dist.insert(x, c);
                heap.push((Reverse(c), x));
            }
        }
    }
    false
}

/// The digraphs of C03 (shared with C05): weighted, non-negative.
pub fn gen_case(r: &mut Rng, max: usize) -> (Model, Vec<usize>, &'static str) {
    let fam;
    let mut m;
    if r.chance(0.2) {
        // targeted: a superseded entry ahead of a pending vertex
        fam = "superseded_ahead";
        let extra = r.below(max.saturating_sub(4).max(1));
        let n = 4 + extra;
        m = Model::new(n);
        let mut ids: Vec<usize> = (0..n).collect();
        r.shuffle(&mut ids);
        let (s, a, b, c) = (ids[0], ids[1], ids[2], ids[3]);
        let big = r.irange(5, 30);
        m.add(s, a, big);
        m.add(s, b, r.irange(0, 2));
        m.add(b, a, r.irange(0, 2));
        m.add(s, c, big + r.irange(0, 20));
        for _ in 0..r.below(2 * n) {
            let u = r.below(n);
            let v = r.below(n);
            if u != v && !m.has(u, v) {
                m.add(u, v, r.irange(0, 40));
            }
        }
        let mut src = vec![s];
        if r.chance(0.2) {
            let t = r.below(n);
            if t != s {
                src.push(t);
            }
        }
        return (m, src, fam);
    }
    if r.below(12) == 0 {
        // every settled vertex improves all remaining ones: the lazy heap
        // fills with superseded entries; zero-weight path arcs make ties
        let n = r.range(4, max.max(4));
        let mut m = Model::new(n);
        let mut ids: Vec<usize> = (0..n).collect();
        if r.chance(0.5) {
            r.shuffle(&mut ids);
        }
        let zero = *r.pick(&[0.0, 0.15, 0.4]);
        for i in 0..n {
            if i + 1 < n {
                m.add(ids[i], ids[i + 1], if r.chance(zero) { 0 } else { 1 });
            }
            for j in (i + 2)..n {
                if r.chance(0.9) {
                    m.add(ids[i], ids[j], ((n - i) * n) as i64 + if r.chance(0.2) { 0 } else { r.irange(0, 1) });
                }
            }
        }
        let mut src = vec![ids[0]];
        if r.chance(0.15) {
            src.push(ids[r.range(1, n - 1)]);
        }
        return (m, src, "stale_heavy");
    }
    if r.below(64) == 0 {
        let m = gen::fixture_weighted(r);
        let src = gen::sources(r, m.n());
        return (m, src, "repo_fixture_weighted");
    }
    let (mm, ff) = gen::algo_digraph(r, max, 257);
    m = mm;
    fam = ff;
    let n = m.n();
    let wc = *r.pick(&[WClass::Unit, WClass::ZeroOne, WClass::ZeroOne, WClass::Small, WClass::Small, WClass::Large]);
    gen::weights(r, &mut m, wc);
    let src = gen::sources(r, n);
    (m, src, fam)
}

/// Tens of thousands of superseded heap entries in a row: 0->1 (1), 0->i (5),
/// 1->i (1) for all other i.
fn huge_stale(r: &mut Rng) -> (Model, Vec<usize>, &'static str) {
    let n = *r.pick(&[60_000usize, 100_000, 200_000]);
    let mut m = Model::new(n);
    m.arcs.insert((0, 1), 1);
    for i in 2..n {
        m.arcs.insert((0, i), 5);
        m.arcs.insert((1, i), 1);
    }
    (m, vec![0], "huge_run_of_superseded_entries")
}

pub fn case(idx: u64, seed: u64, p: &Params, o: &mut CaseOut) {
    let mut r = Rng::for_case(3, seed, idx);
    let every = p.u64("huge_every", 200_000);
    let (m, src, fam) = if every > 0 && idx % every == 99 { huge_stale(&mut r) } else { gen_case(&mut r, p.usize("max_order", 24)) };
    let n = m.n();
    let k = usize_scale(&mut r, &m);
    let d = build_w_usize_scaled(&m, k);
    let refd = m.dist_from(&src).expect("harness: negative circuit with non-negative weights");
    let want: Vec<usize> = (0..n).map(|v| refd.get(&v).map_or(usize::MAX, |&x| x as usize * k)).collect();

    // searches that are abandoned early (point-to-point use) must not affect later ones
    {
        let _ = Dijkstra::new(&d, src.iter().copied()).next();
        let _ = DijkstraDist::new(&d, src.iter().copied()).take(2).count();
        let t = n / 2;
        let _ = DijkstraDist::new(&d, src.iter().copied()).find(|&(v, _)| v == t);
        let _ = DijkstraPred::new(&d, src.iter().copied()).nth(1);
    }
    // distances()
    let got = DijkstraDist::new(&d, src.iter().copied()).distances();
    o.eq("DijkstraDist::distances", &got, &want);

    // Dijkstra item sequence (for loop)
    let mut seq = Vec::new();
    for v in Dijkstra::new(&d, src.iter().copied()) {
        seq.push(v);
        if seq.len() > 4 * n + 4 {
            break;
        }
    }
    check_seq(o, "Dijkstra", &seq, &refd, n);
    let seq2: Vec<usize> = Dijkstra::new(&d, src.iter().copied()).take(4 * n + 4).collect();
    o.eq("Dijkstra:collect-vs-for", &seq2, &seq);
    {
        // an iterator made by clone / clone_from is a Dijkstra over the same digraph and sources
        let fresh = Dijkstra::new(&d, src.iter().copied());
        let other = AdjacencyListWeighted::<usize>::empty(n + 1);
        let mut c = Dijkstra::new(&other, std::iter::once(n));
        c.clone_from(&fresh);
        let via_clone_from: Vec<usize> = c.take(4 * n + 4).collect();
        o.eq("Dijkstra:clone_from-of-a-fresh-iterator", &via_clone_from, &seq);
        let via_clone: Vec<usize> = fresh.clone().take(4 * n + 4).collect();
        o.eq("Dijkstra:clone-of-a-fresh-iterator", &via_clone, &seq);
        let mut dd = DijkstraDist::new(&other, std::iter::once(n));
        dd.clone_from(&DijkstraDist::new(&d, src.iter().copied()));
        o.eq("DijkstraDist:clone_from-of-a-fresh-iterator", &dd.distances(), &want);
    }

    // DijkstraDist item sequence
    let items: Vec<(usize, usize)> = DijkstraDist::new(&d, src.iter().copied()).take(4 * n + 4).collect();
    let vs: Vec<usize> = items.iter().map(|x| x.0).collect();
    check_seq(o, "DijkstraDist", &vs, &refd, n);
    let bad = items.iter().find(|&&(v, w)| refd.get(&v).map(|&x| x as usize * k) != Some(w));
    o.check(bad.is_none(), "DijkstraDist:item-distance", || format!("item {:?} but reference distance {:?}", bad.unwrap(), refd.get(&bad.unwrap().0)));

    if n <= 24 && src.len() == 1 && m.size() % 6 == 1 {
        crate::obs::iter_consistency(o, "Dijkstra", || Dijkstra::new(&d, src.iter().copied()));
        crate::obs::clone_midway(o, "Dijkstra", || Dijkstra::new(&d, src.iter().copied()));
        crate::obs::iter_consistency(o, "DijkstraDist", || DijkstraDist::new(&d, src.iter().copied()));
        crate::obs::clone_midway(o, "DijkstraDist", || DijkstraDist::new(&d, src.iter().copied()));
    }
    let sup = superseded_pop(&m, &src);
    let mut fp = Fp::new();
    m.fingerprint(&mut fp);
    for &s in &src {
        fp.us(s);
    }
    fp.us(k);
    o.fp = fp.0;
    o.nontrivial = refd.len() >= 3 && sup;
    o.bump(fam);
    if sup {
        o.bump("superseded_pop_cases");
    }
    o.bumpn("sources", src.len());
    o.bumpn("order/4", n / 4);
    if k > 1 {
        o.bump("weights_scaled_up");
        if refd.values().any(|&x| (x as u128) * (k as u128) > (usize::MAX / 2) as u128) {
            o.bump("a_distance_above_usize::MAX/2");
        }
    }
    if m.arcs.values().any(|&w| w == 0) {
        o.bump("has_zero_weight");
    }
    if o.want_desc {
        o.desc = format!("AdjacencyListWeighted<usize> family={fam} {} sources={src:?} (every weight multiplied by {k})", m.describe());
    }
}

fn check_seq(o: &mut CaseOut, who: &str, seq: &[usize], refd: &BTreeMap<usize, i64>, n: usize) {
    let set: BTreeSet<usize> = seq.iter().copied().collect();
    o.check(set.len() == seq.len(), &format!("{who}:vertex-yielded-twice"), || format!("{seq:?}"));
    let unreachable: Vec<usize> = seq.iter().copied().filter(|v| !refd.contains_key(v)).collect();
    o.check(unreachable.is_empty(), &format!("{who}:unreachable-vertex-yielded"), || format!("{unreachable:?} in {seq:?}"));
    let missing: Vec<usize> = refd.keys().copied().filter(|v| !set.contains(v)).collect();
    o.check(missing.is_empty(), &format!("{who}:reachable-vertex-never-yielded"), || {
        format!("missing {missing:?}; yielded {seq:?}; order {n}")
    });
    let ds: Vec<i64> = seq.iter().filter_map(|v| refd.get(v).copied()).collect();
    o.check(ds.windows(2).all(|p| p[0] <= p[1]), &format!("{who}:not-in-distance-order"), || format!("{seq:?} with distances {ds:?}"));
}
