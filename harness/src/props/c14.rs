//! C14 — deterministic generators produce exactly their defining arc sets at
//! every order.

use crate::ctx::CaseOut;
use crate::events::check_tiling;
use crate::gen;
use crate::model::Model;
use crate::obs::observe;
use crate::props::c11::{hook_begin, hook_end};
use crate::reprs::*;
use crate::rng::Fp;
use crate::Params;
use graaf::*;

pub const GENS: [&str; 7] = ["empty", "complete", "circuit", "cycle", "path", "star", "wheel"];
/// index into gen::FAMILIES of the closed form of each generator
const FAM: [usize; 7] = [1, 2, 4, 5, 3, 6, 7];

pub fn orders() -> Vec<usize> {
    let mut v: Vec<usize> = (1..=130).collect();
    v.push(192);
    v.push(257);
    v.extend([511, 512, 513, 1025]);
    v
}

pub fn bicliques() -> Vec<(usize, usize)> {
    let mut v = Vec::new();
    for m in 1..=12 {
        for n in 1..=12 {
            v.push((m, n));
        }
    }
    v.extend([(1, 64), (64, 1), (33, 31), (1, 130), (130, 1), (66, 7), (11, 66), (70, 3), (3, 70), (100, 100), (128, 5), (65, 65)]);
    v
}

/// (first, second): the generator is called with `first`, then with `second`
/// on the same thread; the SECOND result is judged (state carried over
/// between calls, e.g. a cache that only grows).
pub const SEQS: [(usize, usize); 7] = [(70, 40), (257, 129), (129, 64), (64, 33), (33, 32), (1025, 100), (40, 70)];

/// Orders that only the edge list can represent (its `empty` is O(1)).
pub const EXTREME: [usize; 6] = [1 << 32, (1 << 32) + 1, 1 << 40, 1 << 63, usize::MAX - 1, usize::MAX];
/// Orders requested at the same time by several caller threads.
pub const CONCURRENT: [[usize; 3]; 4] = [[40, 64, 33], [32, 32, 32], [100, 3, 70], [257, 129, 65]];

pub fn n_cases() -> usize {
    GENS.len() * orders().len() + bicliques().len() + 3 + (GENS.len() + 3 + 3) + (GENS.len() + 1) * SEQS.len() + EXTREME.len() + CONCURRENT.len()
}

fn closed_form(g: usize, n: usize) -> Model {
    // the closed forms of gen::family are written from the property statement
    let mut r = crate::rng::Rng(0);
    gen::family(&mut r, FAM[g], n)
}

fn biclique_model(a: usize, b: usize) -> Model {
    let mut m = Model::new(a + b);
    for u in 0..a {
        for v in a..(a + b) {
            m.add(u, v, 1);
            m.add(v, u, 1);
        }
    }
    m
}

fn make<D>(g: usize, n: usize) -> D
where
    D: Empty + Complete + Circuit + Cycle + Path + Star + Wheel,
{
    match g {
        0 => D::empty(n),
        1 => D::complete(n),
        2 => D::circuit(n),
        3 => D::cycle(n),
        4 => D::path(n),
        5 => D::star(n),
        _ => D::wheel(n),
    }
}

fn check_all(o: &mut CaseOut, what: &str, m: &Model, al: AdjacencyList, am: AdjacencyMap, mx: AdjacencyMatrix, el: EdgeList) {
    let pairs = m.n() <= 40;
    if m.n() > 300 && m.size() > 200_000 {
        // the complete digraph at order 1025 has a million arcs: observe two types only
        observe(&al, m, o, &format!("AdjacencyList::{what}"), false);
        observe(&mx, m, o, &format!("AdjacencyMatrix::{what}"), false);
        o.check(am.order() == m.n() && am.size() == m.size() && el.size() == m.size(), &format!("{what}:size"), String::new);
        return;
    }
    observe(&al, m, o, &format!("AdjacencyList::{what}"), pairs);
    observe(&am, m, o, &format!("AdjacencyMap::{what}"), pairs);
    observe(&mx, m, o, &format!("AdjacencyMatrix::{what}"), pairs);
    observe(&el, m, o, &format!("EdgeList::{what}"), pairs);
    // all representations produce the same digraph
    o.check(AdjacencyList::from(am.clone()) == al, &format!("{what}:AdjacencyMap-differs-from-AdjacencyList"), || String::new());
    o.check(AdjacencyList::from(mx.clone()) == al, &format!("{what}:AdjacencyMatrix-differs-from-AdjacencyList"), || String::new());
    o.check(AdjacencyList::from(el.clone()) == al, &format!("{what}:EdgeList-differs-from-AdjacencyList"), || String::new());
    o.check(al == AdjacencyList::build(m) && am == AdjacencyMap::build(m) && mx == AdjacencyMatrix::build(m) && el == EdgeList::build(m), &format!("{what}:differs-from-add_arc-construction"), || String::new());
}

pub fn case(idx: u64, _seed: u64, p: &Params, o: &mut CaseOut) {
    let ords = orders();
    let bis = bicliques();
    let mut k = (idx as usize) % n_cases();
    let max = p.usize("max_order", 1000);
    let mut fp = Fp::new();
    let t = std::thread::available_parallelism().map_or(1, |x| x.get());
    if k < GENS.len() * ords.len() {
        let (g, n) = (k / ords.len(), ords[k % ords.len()]);
        let n = if g == 6 { n.max(4) } else { n };
        if n > max {
            o.skipped = true;
            return;
        }
        let m = closed_form(g, n);
        hook_begin(p, idx);
        let al: AdjacencyList = make(g, n);
        let ev = hook_end();
        if g == 1 && n > 1 {
            if let Some(tl) = check_tiling(&ev, graaf::verif::AL_COMPLETE, n, false, o, "AdjacencyList::complete") {
                o.sigs.push((graaf::verif::AL_COMPLETE, tl.signature));
                o.bumpn("workers", tl.workers);
            } else {
                o.bump("hook_log_empty");
            }
        }
        check_all(o, GENS[g], &m, al, make(g, n), make(g, n), make(g, n));
        fp.s(GENS[g]).us(n);
        o.nontrivial = n > t || (n * n) % 64 != 0;
        o.bump(GENS[g]);
        o.bumpn("order/16", n / 16);
        if o.want_desc {
            o.desc = format!("{}({n}) in all four unweighted types (available_parallelism {t})", GENS[g]);
        }
        o.fp = fp.0;
        return;
    }
    k -= GENS.len() * ords.len();
    if k < bis.len() {
        let (a, b) = bis[k];
        if a + b > max {
            o.skipped = true;
            return;
        }
        let m = biclique_model(a, b);
        check_all(o, "biclique", &m, AdjacencyList::biclique(a, b), AdjacencyMap::biclique(a, b), AdjacencyMatrix::biclique(a, b), EdgeList::biclique(a, b));
        fp.s("biclique").us(a).us(b);
        o.fp = fp.0;
        o.nontrivial = a != b;
        o.bump("biclique");
        if o.want_desc {
            o.desc = format!("biclique({a},{b}) in all four unweighted types");
        }
        return;
    }
    k -= bis.len();
    if k < 3 {
        let (name, m) = match k {
            0 => ("trivial", Model::new(1)),
            1 => ("claw", biclique_model(1, 3)),
            _ => ("utility", biclique_model(3, 3)),
        };
        match k {
            0 => check_all(o, name, &m, AdjacencyList::trivial(), AdjacencyMap::trivial(), AdjacencyMatrix::trivial(), EdgeList::trivial()),
            1 => check_all(o, name, &m, AdjacencyList::claw(), AdjacencyMap::claw(), AdjacencyMatrix::claw(), EdgeList::claw()),
            _ => check_all(o, name, &m, AdjacencyList::utility(), AdjacencyMap::utility(), AdjacencyMatrix::utility(), EdgeList::utility()),
        }
        fp.s(name);
        o.fp = fp.0;
        o.nontrivial = true;
        o.bump(name);
        if o.want_desc {
            o.desc = format!("{name}() in all four unweighted types");
        }
        return;
    }
    k -= 3;
    if k >= GENS.len() + 3 + 3 + (GENS.len() + 1) * SEQS.len() {
        let k = k - (GENS.len() + 3 + 3 + (GENS.len() + 1) * SEQS.len());
        if k < EXTREME.len() {
            let n = EXTREME[k];
            let what = format!("EdgeList::empty({n})");
            if let Some(d) = o.must_return("EdgeList::empty:extreme-order-panicked", || what.clone(), || EdgeList::empty(n)) {
                o.check(d.order() == n && d.size() == 0 && d.arcs().next().is_none() && !d.has_arc(0, n - 1), "EdgeList::empty:extreme-order", || format!("order {} size {}", d.order(), d.size()));
            }
            fp.s("extreme").us(n);
            o.fp = fp.0;
            o.nontrivial = true;
            o.bump("extreme_order");
            if o.want_desc {
                o.desc = what;
            }
            return;
        }
        let orders = CONCURRENT[k - EXTREME.len()];
        if orders.iter().any(|&x| x > max) {
            o.skipped = true;
            return;
        }
        // several caller threads build complete digraphs at the same time
        let bad: Vec<String> = std::thread::scope(|s| {
            let hs: Vec<_> = orders
                .iter()
                .map(|&n| {
                    s.spawn(move || {
                        let mut bad = Vec::new();
                        for rep in 0..6 {
                            let c = AdjacencyList::complete(n);
                            let ok = c.order() == n && c.arcs().eq((0..n).flat_map(|u| (0..n).filter(move |&v| v != u).map(move |v| (u, v))));
                            if !ok {
                                bad.push(format!("complete({n}) repetition {rep}: order {} size {}", c.order(), c.size()));
                            }
                            let m = AdjacencyMap::complete(n);
                            if m.order() != n || m.size() != n * (n - 1) {
                                bad.push(format!("AdjacencyMap::complete({n}) repetition {rep}: order {} size {}", m.order(), m.size()));
                            }
                        }
                        bad
                    })
                })
                .collect();
            hs.into_iter().flat_map(|h| h.join().unwrap_or_else(|_| vec!["a caller thread panicked".to_string()])).collect()
        });
        o.check(bad.is_empty(), "complete:wrong-with-concurrent-callers", || crate::ctx::clip(&bad.join(" | ")));
        fp.s("concurrent").us(orders[0]).us(orders[1]);
        o.fp = fp.0;
        o.nontrivial = true;
        o.bump("concurrent_callers");
        if o.want_desc {
            o.desc = format!("three threads call complete({}), complete({}), complete({}) at the same time, 6 times each", orders[0], orders[1], orders[2]);
        }
        return;
    }
    if k >= GENS.len() + 3 + 3 {
        let k = k - (GENS.len() + 3 + 3);
        let (g, (a, b)) = (k / SEQS.len(), SEQS[k % SEQS.len()]);
        if a.max(b) > max {
            o.skipped = true;
            return;
        }
        let name;
        if g < GENS.len() {
            name = GENS[g];
            let m = closed_form(g, b.max(if g == 6 { 4 } else { 1 }));
            let (a, b) = (a.max(4), b.max(4));
            let al = {
                let _first: AdjacencyList = make(g, a);
                make::<AdjacencyList>(g, b)
            };
            let am = {
                let _first: AdjacencyMap = make(g, a);
                make::<AdjacencyMap>(g, b)
            };
            let mx = {
                let _first: AdjacencyMatrix = make(g, a);
                make::<AdjacencyMatrix>(g, b)
            };
            let el = {
                let _first: EdgeList = make(g, a);
                make::<EdgeList>(g, b)
            };
            check_all(o, &format!("{name}({b}) after {name}({a})"), &m, al, am, mx, el);
        } else {
            name = "biclique";
            let m = biclique_model(b, 3);
            let al = {
                let _f = AdjacencyList::biclique(a, 5);
                AdjacencyList::biclique(b, 3)
            };
            let am = {
                let _f = AdjacencyMap::biclique(a, 5);
                AdjacencyMap::biclique(b, 3)
            };
            let mx = {
                let _f = AdjacencyMatrix::biclique(a, 5);
                AdjacencyMatrix::biclique(b, 3)
            };
            let el = {
                let _f = EdgeList::biclique(a, 5);
                EdgeList::biclique(b, 3)
            };
            check_all(o, &format!("biclique({b},3) after biclique({a},5)"), &m, al, am, mx, el);
        }
        fp.s("seq").s(name).us(a).us(b);
        o.fp = fp.0;
        o.nontrivial = true;
        o.bump("second_call_after_a_different_order");
        if o.want_desc {
            o.desc = format!("{name}: order {b} right after order {a} on the same thread, all four types");
        }
        return;
    }
    // inadmissible parameters must panic
    let (what, desc): (String, String);
    macro_rules! all_panic {
        ($name:expr, $e:expr) => {{
            type D0 = AdjacencyList;
            type D1 = AdjacencyMap;
            type D2 = AdjacencyMatrix;
            type D3 = EdgeList;
            {
                type D = D0;
                let _ = o.must_panic(&format!("AdjacencyList::{}:no-panic", $name), || $name.to_string(), || $e(std::marker::PhantomData::<D>));
            }
            {
                type D = D1;
                let _ = o.must_panic(&format!("AdjacencyMap::{}:no-panic", $name), || $name.to_string(), || $e(std::marker::PhantomData::<D>));
            }
            {
                type D = D2;
                let _ = o.must_panic(&format!("AdjacencyMatrix::{}:no-panic", $name), || $name.to_string(), || $e(std::marker::PhantomData::<D>));
            }
            {
                type D = D3;
                let _ = o.must_panic(&format!("EdgeList::{}:no-panic", $name), || $name.to_string(), || $e(std::marker::PhantomData::<D>));
            }
        }};
    }
    fn mk<D: Empty + Complete + Circuit + Cycle + Path + Star + Wheel + Order>(g: usize, n: usize, _: std::marker::PhantomData<D>) -> usize {
        make::<D>(g, n).order()
    }
    fn bi<D: Biclique + Order>(a: usize, b: usize, _: std::marker::PhantomData<D>) -> usize {
        D::biclique(a, b).order()
    }
    if k < GENS.len() {
        let g = k;
        what = format!("{}(0)", GENS[g]);
        all_panic!(what, |ph| mk(g, 0, ph));
        desc = format!("{what} must panic in all four types");
    } else if k < GENS.len() + 3 {
        let n = k - GENS.len() + 1;
        what = format!("wheel({n})");
        all_panic!(what, |ph| mk(6, n, ph));
        desc = format!("{what} must panic in all four types");
    } else {
        let (a, b) = [(0, 3), (3, 0), (0, 0)][k - GENS.len() - 3];
        what = format!("biclique({a},{b})");
        all_panic!(what, |ph| bi(a, b, ph));
        desc = format!("{what} must panic in all four types");
    }
    fp.s(&what);
    o.fp = fp.0;
    o.nontrivial = true;
    o.bump("inadmissible");
    if o.want_desc {
        o.desc = desc;
    }
}
