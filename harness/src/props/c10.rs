//! C10 — Johnson75 enumerates every elementary circuit exactly once.

use crate::ctx::CaseOut;
use crate::gen;
use crate::model::Model;
use crate::reprs::*;
use crate::rng::{Fp, Rng};
use crate::Params;
use graaf::*;
use std::collections::BTreeSet;

/// All digraphs of order <= 4: 1 + 4 + 64 + 4096.
pub const EXHAUSTIVE_LE4: u64 = 1 + 4 + 64 + 4096;

pub fn decode(n: usize, mask: u64) -> Model {
    let mut m = Model::new(n);
    let mut bit = 0;
    for u in 0..n {
        for v in 0..n {
            if u != v {
                if mask >> bit & 1 == 1 {
                    m.add(u, v, 1);
                }
                bit += 1;
            }
        }
    }
    m
}

fn blocked_family(r: &mut Rng, n: usize) -> Model {
    // a long path from 0 with many dead-end branches and a few arcs back to
    // low vertices: vertices get blocked, then unblocked through B-lists
    let mut m = Model::new(n);
    for u in 0..n - 1 {
        m.add(u, u + 1, 1);
    }
    for _ in 0..r.range(1, n) {
        let u = r.below(n);
        let v = r.below(n);
        if u != v {
            m.add(u, v, 1);
        }
    }
    if n >= 3 {
        m.add(n - 1, r.below(n - 1), 1);
    }
    m
}

pub fn check(d: &AdjacencyMap, m: &Model, o: &mut CaseOut) -> usize {
    let mut j = Johnson75::new(d);
    let got: Vec<Vec<usize>> = j.circuits();
    if m.n() <= 40 {
        let mut cl = j.clone();
        let again = j.circuits();
        o.check(again == got, "circuits-differ-on-second-call", || crate::ctx::clip(&format!("first {got:?} second {again:?}")));
        let cloned = cl.circuits();
        // the destination was created for ANOTHER digraph and has been used
        let other = AdjacencyMap::cycle(m.n().max(2) + 1);
        let mut x = Johnson75::new(&other);
        let _ = x.circuits();
        x.clone_from(&Johnson75::new(d));
        let via = x.circuits();
        o.check(via == got, "circuits-differ-after-clone_from", || crate::ctx::clip(&format!("first {got:?} via clone_from {via:?}")));
        o.check(cloned == got, "circuits-differ-on-a-clone", || crate::ctx::clip(&format!("first {got:?} clone {cloned:?}")));
        if got.len() <= 3000 {
            // a third and a fourth call, and a clone taken from the used object
            let mut used = j.clone();
            for nth in 3..=4 {
                let later = j.circuits();
                o.check(later == got, "circuits-differ-on-a-later-call", || crate::ctx::clip(&format!("first {got:?} call {nth}: {later:?}")));
            }
            let via_used = used.circuits();
            o.check(via_used == got, "circuits-differ-on-a-clone-of-a-used-object", || crate::ctx::clip(&format!("first {got:?} clone of used {via_used:?}")));
        }
    }
    let want = m.circuits();
    let set: BTreeSet<Vec<usize>> = got.iter().cloned().collect();
    o.check(set.len() == got.len(), "circuit-returned-twice", || format!("{got:?}"));
    for c in &got {
        let distinct: BTreeSet<usize> = c.iter().copied().collect();
        let ok = c.len() >= 2
            && distinct.len() == c.len()
            && c.windows(2).all(|p| m.has(p[0], p[1]))
            && m.has(*c.last().unwrap(), c[0])
            && c[0] == *distinct.iter().next().unwrap();
        o.check(ok, "not-an-elementary-circuit-from-its-smallest-vertex", || format!("{c:?}"));
    }
    let missing: Vec<&Vec<usize>> = want.difference(&set).collect();
    o.check(missing.is_empty(), "circuit-missing", || format!("missing {missing:?}; returned {} of {}", got.len(), want.len()));
    let extra: Vec<&Vec<usize>> = set.difference(&want).collect();
    o.check(extra.is_empty(), "circuit-extra", || format!("extra {extra:?}"));
    want.len()
}

pub fn case(idx: u64, seed: u64, p: &Params, o: &mut CaseOut) {
    let mode = p.str("mode", "mixed");
    let mut r = Rng::for_case(10, seed, idx);
    let (m, fam): (Model, &'static str) = if mode == "ex5" {
        (decode(5, idx), "all_order_5")
    } else if idx < EXHAUSTIVE_LE4 {
        let (n, mask) = match idx {
            0 => (1, 0),
            1..=4 => (2, idx - 1),
            5..=68 => (3, idx - 5),
            _ => (4, idx - 69),
        };
        (decode(n, mask), "all_order_le_4")
    } else if r.below(100_000) < p.usize("huge_per_100k", 40) {
        let n = r.range(600, p.usize("huge_max", 1500));
        let mut m = gen::family(&mut r, 4, n); // one long circuit
        for _ in 0..r.below(3) {
            let u = r.below(n - 1);
            m.add(u + 1, u, 1); // a few 2-circuits along it
        }
        (m, "long_circuit")
    } else {
        match r.below(10) {
            0..=3 => (decode(5, r.next() & ((1 << 20) - 1)), "order_5_sampled"),
            4..=5 => {
                let n = r.range(4, p.usize("max_order", 9));
                (blocked_family(&mut r, n), "blocked_unblocked")
            }
            6 => {
                let n = r.range(2, 7);
                let f = *r.pick(&[2usize, 5, 7, 8, 9, 14, 15]);
                (gen::family(&mut r, f, n), "structured")
            }
            _ => {
                let n = r.range(6, p.usize("max_order", 9).max(6));
                let dens = *r.pick(&[0.1, 0.2, 0.3, 0.4, 0.5]);
                (gen::random_arcs(&mut r, n, dens), "random_6_to_9")
            }
        }
    };
    let d = if r.chance(0.5) { AdjacencyMap::build(&m) } else { AdjacencyMap::build_alt(&m) };
    let k = check(&d, &m, o);
    let want = m.circuits();
    let shared = want.iter().any(|a| want.iter().any(|b| a != b && a.iter().any(|x| b.contains(x))));
    let mut fp = Fp::new();
    m.fingerprint(&mut fp);
    o.fp = fp.0;
    o.nontrivial = k >= 2 && shared;
    o.bump(fam);
    o.bumpn("order", m.n());
    o.bumpn("log2(circuits+1)", (64 - (k as u64 + 1).leading_zeros() - 1) as usize);
    if o.want_desc {
        o.desc = format!("AdjacencyMap family={fam} {} ({k} circuits)", m.describe());
    }
}
