//! C01 — every representation tracks the abstract digraph under any
//! mutation history.

use crate::ctx::CaseOut;
use crate::gen;
use crate::model::Model;
use crate::obs::{observe, observe_w};
use crate::reprs::*;
use crate::rng::{Fp, Rng};
use crate::Params;
use graaf::*;

/// The digraph under test, behind one interface for the six types.
trait Dut {
    fn name(&self) -> &'static str;
    fn fixed_order(&self) -> bool;
    fn weighted(&self) -> bool;
    fn add(&mut self, u: usize, v: usize, w: i64);
    fn remove(&mut self, u: usize, v: usize) -> bool;
    /// None if the type has no toggle.
    fn toggle(&mut self, u: usize, v: usize) -> Option<()>;
    fn observe(&self, m: &Model, o: &mut CaseOut, tag: &str, pairs: bool);
    fn eq_fresh(&self, m: &Model) -> bool;
    fn boxed_clone(&self) -> Box<dyn Dut>;
    fn same(&self, other: &dyn Dut) -> bool;
    /// `self.clone_from(&fresh digraph built from m)`
    fn clone_from_fresh(&mut self, m: &Model);
    fn as_any(&self) -> &dyn std::any::Any;
}

macro_rules! dut_unweighted {
    ($T:ty, $name:expr, $fixed:expr, $toggle:expr, $fresh:expr) => {
        impl Dut for $T {
            fn name(&self) -> &'static str {
                $name
            }
            fn fixed_order(&self) -> bool {
                $fixed
            }
            fn weighted(&self) -> bool {
                false
            }
            fn add(&mut self, u: usize, v: usize, _w: i64) {
                self.add_arc(u, v);
            }
            fn remove(&mut self, u: usize, v: usize) -> bool {
                self.remove_arc(u, v)
            }
            fn toggle(&mut self, u: usize, v: usize) -> Option<()> {
                let f: fn(&mut $T, usize, usize) -> Option<()> = $toggle;
                f(self, u, v)
            }
            fn observe(&self, m: &Model, o: &mut CaseOut, tag: &str, pairs: bool) {
                observe(self, m, o, tag, pairs);
            }
            fn eq_fresh(&self, m: &Model) -> bool {
                let f: fn(&Model) -> $T = $fresh;
                *self == f(m)
            }
            fn boxed_clone(&self) -> Box<dyn Dut> {
                Box::new(self.clone())
            }
            fn same(&self, other: &dyn Dut) -> bool {
                other.as_any().downcast_ref::<$T>().is_some_and(|x| x == self)
            }
            fn clone_from_fresh(&mut self, m: &Model) {
                let f: fn(&Model) -> $T = $fresh;
                let src = f(m);
                self.clone_from(&src);
            }
            fn as_any(&self) -> &dyn std::any::Any {
                self
            }
        }
    };
}

dut_unweighted!(AdjacencyList, "AdjacencyList", true, |_, _, _| None, |m| AdjacencyList::build_alt(m));
dut_unweighted!(AdjacencyMap, "AdjacencyMap", false, |_, _, _| None, |m| build_map_any(m));
dut_unweighted!(
    AdjacencyMatrix,
    "AdjacencyMatrix",
    true,
    |d, u, v| {
        d.toggle(u, v);
        Some(())
    },
    |m| AdjacencyMatrix::build(m)
);
dut_unweighted!(EdgeList, "EdgeList", true, |_, _, _| None, |m| EdgeList::build(m));

macro_rules! dut_weighted {
    ($W:ty, $name:expr, $fresh:expr) => {
        impl Dut for AdjacencyListWeighted<$W> {
            fn name(&self) -> &'static str {
                $name
            }
            fn fixed_order(&self) -> bool {
                true
            }
            fn weighted(&self) -> bool {
                true
            }
            fn add(&mut self, u: usize, v: usize, w: i64) {
                self.add_arc_weighted(u, v, w as $W);
            }
            fn remove(&mut self, u: usize, v: usize) -> bool {
                self.remove_arc(u, v)
            }
            fn toggle(&mut self, _u: usize, _v: usize) -> Option<()> {
                None
            }
            fn observe(&self, m: &Model, o: &mut CaseOut, tag: &str, pairs: bool) {
                observe(self, m, o, tag, pairs);
                if pairs {
                    observe_w(self, m, o, tag, |w| *w as i64);
                }
            }
            fn eq_fresh(&self, m: &Model) -> bool {
                let f: fn(&Model) -> AdjacencyListWeighted<$W> = $fresh;
                *self == f(m)
            }
            fn boxed_clone(&self) -> Box<dyn Dut> {
                Box::new(self.clone())
            }
            fn same(&self, other: &dyn Dut) -> bool {
                other
                    .as_any()
                    .downcast_ref::<AdjacencyListWeighted<$W>>()
                    .is_some_and(|x| x == self)
            }
            fn clone_from_fresh(&mut self, m: &Model) {
                let f: fn(&Model) -> AdjacencyListWeighted<$W> = $fresh;
                let src = f(m);
                self.clone_from(&src);
            }
            fn as_any(&self) -> &dyn std::any::Any {
                self
            }
        }
    };
}

dut_weighted!(usize, "AdjacencyListWeighted<usize>", |m| build_w_usize_alt(m));
dut_weighted!(isize, "AdjacencyListWeighted<isize>", |m| build_w_isize_alt(m));

fn model_of<D: Arcs + Order>(d: &D) -> Model {
    let mut m = Model::new(d.order());
    for (u, v) in d.arcs() {
        m.arcs.insert((u, v), 1);
    }
    m
}

const STARTS: [&str; 14] = [
    "empty",
    "complete",
    "circuit",
    "cycle",
    "path",
    "star",
    "wheel",
    "biclique",
    "random_tournament",
    "erdos_renyi",
    "random_recursive_tree",
    "from_other_repr",
    "from_iter",
    "built_by_add_arc",
];

fn start_unweighted<D>(r: &mut Rng, kind: usize, n: usize) -> (D, Model, &'static str)
where
    D: Unweighted
        + Complete
        + Circuit
        + Cycle
        + Path
        + Star
        + Wheel
        + Biclique
        + RandomTournament
        + ErdosRenyi
        + RandomRecursiveTree
        + From<AdjacencyList>,
{
    let name = STARTS[kind];
    match name {
        "empty" => (D::empty(n), Model::new(n), name),
        "complete" => (D::complete(n), gen::family(r, 2, n), name),
        "circuit" => (D::circuit(n), gen::family(r, 4, n), name),
        "cycle" => (D::cycle(n), gen::family(r, 5, n), name),
        "path" => (D::path(n), gen::family(r, 3, n), name),
        "star" => (D::star(n), gen::family(r, 6, n), name),
        "wheel" => {
            let n = n.max(4);
            (D::wheel(n), gen::family(r, 7, n), name)
        }
        "biclique" => {
            let a = r.range(1, n.max(2) - 1).max(1);
            let b = (n.max(2) - a).max(1);
            let mut m = Model::new(a + b);
            for u in 0..a {
                for v in a..(a + b) {
                    m.add(u, v, 1);
                    m.add(v, u, 1);
                }
            }
            (D::biclique(a, b), m, name)
        }
        "random_tournament" => {
            let d = D::random_tournament(n, r.next());
            let m = model_of(&d);
            (d, m, name)
        }
        "erdos_renyi" => {
            let pr = *r.pick(&[0.0, 0.2, 0.5, 0.8, 1.0]);
            let d = D::erdos_renyi(n, pr, r.next());
            let m = model_of(&d);
            (d, m, name)
        }
        "random_recursive_tree" => {
            let d = D::random_recursive_tree(n, r.next());
            let m = model_of(&d);
            (d, m, name)
        }
        "from_other_repr" => {
            let dens = *r.pick(&gen::DENSITIES);
            let m = gen::random_arcs(r, n, dens);
            (D::from(AdjacencyList::build(&m)), m, name)
        }
        "from_iter" => {
            let dens = *r.pick(&gen::DENSITIES);
            let m = gen::random_arcs(r, n, dens);
            (D::build_alt(&m), m, name)
        }
        _ => {
            let fam = r.below(gen::FAMILIES.len());
            let m = gen::family(r, fam, n);
            (D::build(&m), m, name)
        }
    }
}

/// No start digraph with a self-loop or an endpoint outside V is reachable:
/// a constructor given rows or arcs with ONE offending element — in any row,
/// after valid, empty or full rows — has to panic.
fn invalid_start_rejected(r: &mut Rng, m: &Model, ty: usize, o: &mut CaseOut) {
    use std::collections::{BTreeMap, BTreeSet};
    let n = m.n();
    let u = r.below(n);
    let mut rows: Vec<BTreeMap<usize, i64>> = (0..n).map(|x| m.out_w(x).into_iter().collect()).collect();
    if u > 0 && r.chance(0.5) {
        // an empty row somewhere before the offending one
        let j = r.below(u);
        rows[j].clear();
    }
    let bad = if r.chance(0.5) { u } else { *r.pick(&[n, n + 1, 2 * n, usize::MAX]) };
    let _ = rows[u].insert(bad, 1);
    let what = || format!("row {u} of {n} rows contains {bad}");
    let sets: Vec<BTreeSet<usize>> = rows.iter().map(|row| row.keys().copied().collect()).collect();
    match ty {
        0 => {
            let _ = o.must_panic("start:AdjacencyList::from(rows)-accepts-an-invalid-row", what, || AdjacencyList::from(sets.clone()));
        }
        1 => {
            let _ = o.must_panic("start:AdjacencyMap::from(rows)-accepts-an-invalid-row", what, || AdjacencyMap::from(sets.clone()));
        }
        2 | 3 => {
            // arcs: only a self-loop is invalid (a larger id just raises the order)
            let mut arcs = m.arc_list();
            let at = r.below(arcs.len() + 1);
            arcs.insert(at, (u, u));
            let what = || format!("arc ({u},{u}) at position {at} of {}", arcs.len());
            if ty == 2 {
                let _ = o.must_panic("start:AdjacencyMatrix::from(arcs)-accepts-a-self-loop", what, || AdjacencyMatrix::from(arcs.clone()));
            } else {
                let _ = o.must_panic("start:EdgeList::from(arcs)-accepts-a-self-loop", what, || EdgeList::from(arcs.clone()));
            }
        }
        4 => {
            let w: Vec<BTreeMap<usize, usize>> = rows.iter().map(|row| row.iter().map(|(&v, &x)| (v, x.unsigned_abs() as usize)).collect()).collect();
            let _ = o.must_panic("start:AdjacencyListWeighted<usize>::from(rows)-accepts-an-invalid-row", what, || AdjacencyListWeighted::<usize>::from(w.clone()));
        }
        _ => {
            let w: Vec<BTreeMap<usize, isize>> = rows.iter().map(|row| row.iter().map(|(&v, &x)| (v, x as isize)).collect()).collect();
            let _ = o.must_panic("start:AdjacencyListWeighted<isize>::from(rows)-accepts-an-invalid-row", what, || AdjacencyListWeighted::<isize>::from(w.clone()));
        }
    }
    o.bump("invalid_start_probe");
}

fn pick_order(r: &mut Rng, p: &Params) -> usize {
    let max = p.usize("max_order", 129);
    let n = match r.below(20) {
        0 => 1,
        1 => 2,
        2..=13 => r.range(2, 17),
        14..=16 => *r.pick(&[31usize, 32, 33]),
        17 => *r.pick(&[127usize, 128, 129]),
        _ => *r.pick(&[63usize, 64, 65]),
    };
    n.min(max)
}

pub fn case(idx: u64, seed: u64, p: &Params, o: &mut CaseOut) {
    let mut r = Rng::for_case(1, seed, idx);
    let ty = r.below(6);
    let n = pick_order(&mut r, p);
    let kind = r.below(STARTS.len());
    let (mut d, mut m, start): (Box<dyn Dut>, Model, &'static str) = match ty {
        0 => {
            let (d, m, s) = start_unweighted::<AdjacencyList>(&mut r, if kind == 11 { 13 } else { kind }, n);
            (Box::new(d), m, s)
        }
        1 => {
            let (d, m, s) = start_unweighted::<AdjacencyMap>(&mut r, kind, n);
            (Box::new(d), m, s)
        }
        2 => {
            let (d, m, s) = start_unweighted::<AdjacencyMatrix>(&mut r, kind, n);
            (Box::new(d), m, s)
        }
        3 => {
            let (d, m, s) = start_unweighted::<EdgeList>(&mut r, kind, n);
            (Box::new(d), m, s)
        }
        4 => {
            let dens = *r.pick(&gen::DENSITIES);
            let mut m = gen::random_arcs(&mut r, n, dens);
            gen::weights(&mut r, &mut m, gen::WClass::Small);
            if r.chance(0.5) {
                (Box::new(build_w_usize(&m)), m, "empty+add_arc_weighted")
            } else {
                (Box::new(build_w_usize_alt(&m)), m, "from_iter")
            }
        }
        _ => {
            let dens = *r.pick(&gen::DENSITIES);
            let mut m = gen::random_arcs(&mut r, n, dens);
            gen::weights(&mut r, &mut m, gen::WClass::MixedNeg);
            if r.chance(0.3) {
                // conversion from an unweighted digraph: all weights 1
                let mut u = m.clone();
                gen::weights(&mut r, &mut u, gen::WClass::Unit);
                (Box::new(AdjacencyListWeighted::<isize>::from(AdjacencyList::build(&u))), u, "from_other_repr")
            } else if r.chance(0.5) {
                (Box::new(build_w_isize(&m)), m, "empty+add_arc_weighted")
            } else {
                (Box::new(build_w_isize_alt(&m)), m, "from_iter")
            }
        }
    };
    let mut n = m.n();
    let fixed = d.fixed_order();
    let dname = d.name();
    let len = r.range(1, p.usize("max_len", 60));
    let full_every = if n <= 16 { 1 } else { 4 };
    let mut log: Vec<String> = Vec::new();
    let mut fp = Fp::new();
    fp.s(d.name()).s(start);
    m.fingerprint(&mut fp);
    let (mut n_add, mut n_rm_true, mut n_rej) = (0, 0, 0);

    d.observe(&m, o, "start", true);
    o.check(d.eq_fresh(&m), "start:eq-fresh", || "start digraph != digraph freshly built from the model".into());
    if m.is_contig() && n >= 2 && r.chance(0.25) {
        invalid_start_rejected(&mut r, &m, ty, o);
    }

    for step in 0..len {
        // choose an operation
        let existing: Option<(usize, usize)> = if m.size() > 0 {
            let k = r.below(m.size());
            m.arcs.keys().nth(k).copied()
        } else {
            None
        };
        let arg = |r: &mut Rng| -> usize {
            if fixed {
                gen::vertex_arg(r, n)
            } else {
                match r.below(6) {
                    0 => *r.pick(&gen::SPARSE_POOL),
                    1 => m.verts.iter().max().map_or(0, |x| x + 1 + r.below(2)),
                    _ => {
                        let k = r.below(m.n());
                        *m.verts.iter().nth(k).unwrap()
                    }
                }
            }
        };
        let op = r.below(12);
        let w = if d.name().ends_with("<isize>") { r.irange(-9, 9) } else { r.irange(0, 9) };
        let full = (step + 1) % full_every == 0 || step + 1 == len;
        match op {
            0..=4 => {
                // add (valid or not)
                let (u, v) = match (op, existing) {
                    (0, Some(e)) => e, // re-add an existing arc (weighted: new weight)
                    (1, _) => {
                        let u = arg(&mut r);
                        (u, u)
                    }
                    _ => (arg(&mut r), arg(&mut r)),
                };
                let must_reject = u == v || (fixed && (u >= n || v >= n));
                log.push(format!("add({u},{v}{})", if d.weighted() { format!(",{w}") } else { String::new() }));
                if must_reject {
                    n_rej += 1;
                    let before = d.boxed_clone();
                    let panicked = o.must_panic("add-not-rejected", || format!("{dname}::add_arc({u},{v}) on order {n}"), || d.add(u, v, w));
                    if !panicked {
                        return;
                    }
                    o.check(d.same(before.as_ref()), "rejected-add-changed-digraph", || {
                        format!("after rejected add({u},{v}) the digraph != its clone taken before")
                    });
                    d.observe(&m, o, "after-rejected-add", true);
                } else {
                    n_add += 1;
                    if o.must_return("add-panicked", || format!("{dname}::add_arc({u},{v}) on order {n}"), || d.add(u, v, w)).is_none() {
                        return;
                    }
                    m.add(u, v, if d.weighted() { w } else { 1 });
                    d.observe(&m, o, "after-add", full);
                }
            }
            5..=8 => {
                let (u, v) = match (op, existing) {
                    (5 | 6, Some(e)) => e,
                    (7, Some((a, b))) => (b, a),
                    _ => (arg(&mut r), arg(&mut r)),
                };
                log.push(format!("remove({u},{v})"));
                let want = m.remove(u, v);
                if want {
                    n_rm_true += 1;
                }
                let Some(got) = o.must_return("remove-panicked", || format!("{dname}::remove_arc({u},{v})"), || d.remove(u, v)) else {
                    return;
                };
                o.check(got == want, "remove-return", || format!("remove_arc({u},{v}) returned {got}, arc was present: {want}"));
                d.observe(&m, o, "after-remove", full);
            }
            9 | 10 => {
                let (u, v) = match (op, existing) {
                    (9, Some(e)) => e,
                    _ => (arg(&mut r), arg(&mut r)),
                };
                let must_reject = u == v || u >= n || v >= n;
                // only the matrix has toggle
                if d.name() != "AdjacencyMatrix" {
                    continue;
                }
                log.push(format!("toggle({u},{v})"));
                if must_reject {
                    n_rej += 1;
                    let before = d.boxed_clone();
                    if !o.must_panic("toggle-not-rejected", || format!("toggle({u},{v}) on order {n}"), || d.toggle(u, v)) {
                        return;
                    }
                    o.check(d.same(before.as_ref()), "rejected-toggle-changed-digraph", || format!("after rejected toggle({u},{v})"));
                    d.observe(&m, o, "after-rejected-toggle", true);
                } else {
                    let _ = d.toggle(u, v);
                    if !m.remove(u, v) {
                        m.add(u, v, 1);
                    } else {
                        n_rm_true += 1;
                    }
                    d.observe(&m, o, "after-toggle", full);
                }
            }
            _ if r.chance(0.3) => {
                // overwrite the digraph with clone_from(another digraph, usually of another order)
                let n2 = match r.below(4) {
                    0 => n,
                    1 => n + 1 + r.below(3),
                    2 => (n / 2).max(1),
                    _ => r.range(1, 12),
                };
                let dens = *r.pick(&[0.0, 0.3, 0.8]);
                let mut other = gen::random_arcs(&mut r, n2, dens);
                if d.weighted() {
                    gen::weights(&mut r, &mut other, gen::WClass::Small);
                }
                log.push(format!("clone_from(order {n2}, {} arcs)", other.size()));
                d.clone_from_fresh(&other);
                m = other;
                n = m.n();
                d.observe(&m, o, "after-clone_from", true);
                o.check(d.eq_fresh(&m), "clone_from:eq-fresh", || "digraph != digraph freshly built from the model after clone_from".into());
            }
            _ => {
                // clone-and-compare with a freshly built digraph
                log.push("eq_fresh".into());
                o.check(d.eq_fresh(&m), "eq-fresh", || "digraph != digraph freshly built from the model".into());
            }
        }
        if !o.viols.is_empty() {
            break;
        }
    }
    d.observe(&m, o, "end", true);
    o.check(d.eq_fresh(&m), "end:eq-fresh", || "digraph != digraph freshly built from the model".into());
    for l in &log {
        fp.s(l);
    }
    o.fp = fp.0;
    o.nontrivial = n_add >= 1 && n_rm_true >= 1 && n_rej >= 1;
    o.bump(d.name());
    o.bump(start);
    o.bumpn("order", n);
    o.bumpn("len/10", len / 10);
    if o.want_desc {
        o.desc = format!("{} start={start} order={n} history=[{}] final model: {}", d.name(), log.join(" "), m.describe());
    }
}
