//! Checker for the hook event log (graaf::verif): the row ranges processed
//! by the worker threads of one call must tile the input exactly once.

use crate::ctx::CaseOut;
use crate::rng::Fp;

pub struct Tiling {
    pub workers: usize,
    pub signature: u64,
}

/// Check the events of `site` recorded since the last reset. `total` is the
/// number of rows that must be covered. Empty ranges are tolerated only when
/// `allow_empty` (merge-path partitions may give a worker nothing from one
/// side).
pub fn check_tiling(
    ev: &[(u64, u64, usize, usize)],
    site: u64,
    total: usize,
    allow_empty: bool,
    o: &mut CaseOut,
    what: &str,
) -> Option<Tiling> {
    let begins: Vec<(usize, usize)> = ev
        .iter()
        .filter(|e| e.0 == site && e.1 == graaf::verif::BEGIN)
        .map(|e| (e.2, e.3))
        .collect();
    let ends: Vec<(usize, usize)> = ev
        .iter()
        .filter(|e| e.0 == site && e.1 == graaf::verif::END)
        .map(|e| (e.2, e.3))
        .collect();
    if begins.is_empty() {
        return None;
    }
    let mut sorted = begins.clone();
    sorted.sort_unstable();
    let mut pos = 0usize;
    let mut ok = true;
    let mut why = String::new();
    for &(lo, hi) in &sorted {
        if hi < lo || (hi == lo && !allow_empty) {
            ok = false;
            why = format!("empty or inverted range {lo}..{hi}");
            break;
        }
        if hi == lo {
            continue;
        }
        if lo < pos && site == graaf::verif::AL_IS_SEMICOMPLETE {
            // The workers of this site only read the digraph and AND their
            // answers: two workers looking at the same rows is redundant
            // work, not a wrong result and not a race. Recorded, not judged.
            o.bump("note: overlapping row ranges at a read-only site");
            pos = pos.max(hi);
            continue;
        }
        if lo < pos {
            ok = false;
            why = format!("rows {lo}..{} are processed by two workers", pos.min(hi));
            break;
        }
        if lo > pos {
            ok = false;
            why = format!("rows {pos}..{lo} are processed by no worker");
            break;
        }
        pos = hi;
    }
    if ok && pos != total {
        ok = false;
        why = format!("rows {pos}..{total} are processed by no worker");
    }
    o.check(ok, &format!("tiling:{what}"), || format!("{why}; ranges {sorted:?} of {total} rows"));
    let mut se = ends.clone();
    se.sort_unstable();
    o.check(se == sorted, &format!("tiling-ends:{what}"), || {
        format!("begin ranges {sorted:?} but end ranges {se:?}")
    });
    let avail = std::thread::available_parallelism().map_or(1, |x| x.get());
    // No property bounds the number of workers by the number of CPUs (C17
    // quantifies over thread counts, it does not prescribe them): recorded
    // for the evidence, never judged.
    if begins.len() > avail.max(1) {
        o.bump("note: more workers than available_parallelism");
    }
    // interleaving signature: order of begin/end events by range start
    let mut fp = Fp::new();
    for e in ev.iter().filter(|e| e.0 == site) {
        fp.u(e.1).us(e.2);
    }
    Some(Tiling {
        workers: begins.len(),
        signature: fp.0,
    })
}
