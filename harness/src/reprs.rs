//! Builders for the five representations, through public constructors only.

use crate::model::Model;
use graaf::{
    AddArc, AddArcWeighted, AdjacencyList, AdjacencyListWeighted, AdjacencyMap, AdjacencyMatrix,
    EdgeList, Empty, FilterVertices, RemoveArc,
};
use std::collections::{BTreeMap, BTreeSet};

pub const REPRS: [&str; 5] = [
    "AdjacencyList",
    "AdjacencyMap",
    "AdjacencyMatrix",
    "EdgeList",
    "AdjacencyListWeighted",
];

thread_local! {
    static ROUTE_SALT: std::cell::Cell<u64> = const { std::cell::Cell::new(0) };
}

/// Set once per case by the harness (a function of seed and case index): the
/// construction route of a model is then a function of (case, model), the same
/// every time the case is replayed and for every rebuild inside the case.
pub fn set_route_salt(x: u64) {
    ROUTE_SALT.with(|c| c.set(x));
}

fn route(m: &Model, k: u64) -> u64 {
    let salt = ROUTE_SALT.with(|c| c.get());
    crate::rng::mix(salt ^ (m.size() as u64).rotate_left(32) ^ m.n() as u64) % k
}

pub trait Unweighted:
    Sized
    + Clone
    + Eq
    + Ord
    + std::hash::Hash
    + std::fmt::Debug
    + graaf::AddArc
    + graaf::Arcs
    + graaf::HasArc
    + graaf::Order
    + graaf::Size
    + graaf::Vertices
    + graaf::RemoveArc
    + graaf::Empty
    + graaf::Converse
    + graaf::Complement
    + graaf::Union
{
    const NAME: &'static str;
    /// Build from a contiguous model. The construction route depends on the
    /// model, so that every monitor meets digraphs made in every public way:
    /// mostly `empty(n)` + `add_arc` in ascending order, sometimes `add_arc`
    /// in a scrambled order, sometimes `From<iterator>` (`build_alt`).
    fn build(m: &Model) -> Self {
        let mut d = Self::build_plain(m);
        if route_edits(m) {
            edit_without_effect(&mut d, m);
        }
        d
    }
    /// `build` without the trailing edits.
    fn build_plain(m: &Model) -> Self {
        let n = m.n();
        match route(m, 11) {
            4 => {
                let mut d = Self::empty(n);
                for (u, v) in arcs_in_some_order(m) {
                    d.add_arc(u, v);
                }
                d
            }
            5 | 6 => Self::build_alt(m),
            // the digraph as the RESULT of an operation: an algorithm or a
            // comparison must not care whether its input came from a constructor
            7 => Self::build_classic(&m.converse()).converse(),
            8 if n >= 2 => {
                // union of two parts of different order
                let k = (n / 2).max(1);
                let mut low = Model::new(k);
                let mut rest = Model::new(n);
                for &(u, v) in m.arcs.keys() {
                    if u < k && v < k {
                        low.add(u, v, 1);
                    } else {
                        rest.add(u, v, 1);
                    }
                }
                let (a, b) = (Self::build_classic(&low), Self::build_classic(&rest));
                if route(m, 2) == 0 {
                    a.union(&b)
                } else {
                    b.union(&a)
                }
            }
            9 if n <= 48 => Self::build_classic(&m.complement()).complement(),
            10 => Self::build_grown(m).unwrap_or_else(|| Self::build_classic(m)),
            _ => Self::build_classic(m),
        }
    }
    /// A route only some types have (AdjacencyMap: grown by `add_arc` from a
    /// single vertex, every endpoint admitted by the call that first names it).
    fn build_grown(_m: &Model) -> Option<Self> {
        None
    }
    /// `empty(n)` then `add_arc` in ascending order.
    fn build_classic(m: &Model) -> Self {
        assert!(m.is_contig() && m.n() > 0);
        let mut d = Self::empty(m.n());
        for &(u, v) in m.arcs.keys() {
            d.add_arc(u, v);
        }
        d
    }
    /// Alternative construction route (`From<iter>`), same digraph.
    fn build_alt(m: &Model) -> Self;
}

/// One construction in four (independent of the route) is followed by a short
/// run of edits that leave the abstract digraph as it is.
fn route_edits(m: &Model) -> bool {
    let salt = ROUTE_SALT.with(|c| c.get());
    crate::rng::mix(salt.rotate_left(17) ^ 0x5eed ^ (m.size() as u64).rotate_left(24) ^ m.n() as u64) % 4 == 0
}

/// Up to six edits, chosen by the case and the model, none of which changes
/// (V, A): removing an absent arc whose head lies above every out-neighbour
/// of its tail, or whose head or tail is outside V, or a self-loop; adding
/// and removing an arc that is not in A; removing and re-adding one that is.
pub fn edit_without_effect<D: graaf::AddArc + graaf::RemoveArc + graaf::HasArc>(d: &mut D, m: &Model) {
    let n = m.n();
    if n == 0 {
        return;
    }
    let salt = ROUTE_SALT.with(|c| c.get());
    let mut x = crate::rng::mix(salt ^ 0xed17 ^ (m.size() as u64) << 20 ^ n as u64);
    let mut next = |k: usize| {
        x = crate::rng::mix(x.wrapping_add(0x9e37_79b9_7f4a_7c15));
        (x % k.max(1) as u64) as usize
    };
    let arcs = m.arc_list();
    for _ in 0..(1 + next(6)) {
        let u = next(n);
        match next(6) {
            0 => {
                // absent arc above the row's largest head
                let top = m.out(u).into_iter().max().map_or(0, |t| t + 1);
                if top < n {
                    let v = top + next(n - top);
                    if v != u && !m.has(u, v) {
                        let _ = d.remove_arc(u, v);
                    }
                }
            }
            1 => {
                let far = [n, n + 1, 2 * n + 1, usize::MAX][next(4)];
                let _ = if next(2) == 0 { d.remove_arc(u, far) } else { d.remove_arc(far, u) };
            }
            2 => {
                let v = next(n);
                if u != v && !m.has(u, v) {
                    d.add_arc(u, v);
                    let _ = d.remove_arc(u, v);
                }
            }
            3 if !arcs.is_empty() => {
                let (a, b) = arcs[next(arcs.len())];
                let _ = d.remove_arc(a, b);
                d.add_arc(a, b);
            }
            4 => {
                let _ = d.remove_arc(u, u);
            }
            _ => {
                // absent arc anywhere
                let v = next(n);
                if u != v && !m.has(u, v) {
                    let _ = d.remove_arc(u, v);
                }
            }
        }
    }
}

/// The weighted counterpart of `edit_without_effect`.
fn edit_without_effect_w<W: Copy + Default + Ord + std::hash::Hash + std::fmt::Debug + Send + Sync + 'static>(d: &mut AdjacencyListWeighted<W>, m: &Model, conv: &impl Fn(i64) -> W, other: W) {
    use graaf::{AddArcWeighted, RemoveArc};
    let n = m.n();
    if n == 0 {
        return;
    }
    let salt = ROUTE_SALT.with(|c| c.get());
    let mut x = crate::rng::mix(salt ^ 0xed18 ^ (m.size() as u64) << 20 ^ n as u64);
    let mut next = |k: usize| {
        x = crate::rng::mix(x.wrapping_add(0x9e37_79b9_7f4a_7c15));
        (x % k.max(1) as u64) as usize
    };
    let arcs = m.arc_list();
    for _ in 0..(1 + next(6)) {
        let u = next(n);
        match next(7) {
            0 => {
                let top = m.out(u).into_iter().max().map_or(0, |t| t + 1);
                if top < n {
                    let v = top + next(n - top);
                    if v != u && !m.has(u, v) {
                        let _ = d.remove_arc(u, v);
                    }
                }
            }
            1 => {
                let far = [n, n + 1, 2 * n + 1, usize::MAX][next(4)];
                let _ = if next(2) == 0 { d.remove_arc(u, far) } else { d.remove_arc(far, u) };
            }
            2 => {
                let v = next(n);
                if u != v && !m.has(u, v) {
                    d.add_arc_weighted(u, v, other);
                    let _ = d.remove_arc(u, v);
                }
            }
            3 if !arcs.is_empty() => {
                let (a, b) = arcs[next(arcs.len())];
                let _ = d.remove_arc(a, b);
                d.add_arc_weighted(a, b, conv(m.arcs[&(a, b)]));
            }
            4 => {
                let _ = d.remove_arc(u, u);
            }
            5 if !arcs.is_empty() => {
                // re-adding replaces the weight
                let (a, b) = arcs[next(arcs.len())];
                d.add_arc_weighted(a, b, other);
                d.add_arc_weighted(a, b, conv(m.arcs[&(a, b)]));
            }
            _ => {
                let v = next(n);
                if u != v && !m.has(u, v) {
                    let _ = d.remove_arc(u, v);
                }
            }
        }
    }
}

/// The arcs of `m` in an arrival order that depends on the model: ascending,
/// descending, or scrambled (From<iterator of arcs> must not care).
pub fn arcs_in_some_order(m: &Model) -> Vec<(usize, usize)> {
    let mut a = m.arc_list();
    match route(m, 3) {
        0 => {}
        1 => a.reverse(),
        _ => a.sort_by_key(|&(u, v)| crate::rng::mix((u as u64) << 32 ^ v as u64 ^ m.size() as u64)),
    }
    // one list in three names some arcs twice or three times (next to the
    // first mention or at the end): adding is idempotent and From<iterator of
    // arcs> collapses duplicates
    let salt = ROUTE_SALT.with(|c| c.get());
    if crate::rng::mix(salt.rotate_left(29) ^ 0xd0b1e ^ a.len() as u64) % 3 == 0 && a.len() <= 100_000 {
        let mut out = Vec::with_capacity(a.len() + a.len() / 3 + 2);
        let mut tail = Vec::new();
        for (i, &arc) in a.iter().enumerate() {
            out.push(arc);
            match crate::rng::mix(salt ^ (i as u64) << 8 ^ 0xd0) % 9 {
                0 => out.push(arc),
                1 => tail.push(arc),
                2 => {
                    out.push(arc);
                    tail.push(arc);
                }
                _ => {}
            }
        }
        out.extend(tail);
        a = out;
    }
    a
}

fn rows(m: &Model) -> Vec<BTreeSet<usize>> {
    (0..m.n()).map(|u| m.out(u).into_iter().collect()).collect()
}

impl Unweighted for AdjacencyList {
    const NAME: &'static str = "AdjacencyList";
    fn build_alt(m: &Model) -> Self {
        AdjacencyList::from(rows(m))
    }
}

impl Unweighted for AdjacencyMap {
    const NAME: &'static str = "AdjacencyMap";
    fn build_alt(m: &Model) -> Self {
        AdjacencyMap::from(rows(m))
    }
    fn build_grown(m: &Model) -> Option<Self> {
        Some(build_map_any(m))
    }
}

impl Unweighted for AdjacencyMatrix {
    const NAME: &'static str = "AdjacencyMatrix";
    fn build_alt(m: &Model) -> Self {
        // From<iter of arcs> gives order = max id + 1, so it is only the same
        // digraph when the top vertex has an arc.
        let top = m.n() - 1;
        if m.size() > 0 && m.arcs.keys().any(|&(u, v)| u == top || v == top) {
            AdjacencyMatrix::from(arcs_in_some_order(m))
        } else {
            AdjacencyMatrix::from(AdjacencyList::from(rows(m)))
        }
    }
}

impl Unweighted for EdgeList {
    const NAME: &'static str = "EdgeList";
    fn build_alt(m: &Model) -> Self {
        let top = m.n() - 1;
        if m.arcs.keys().any(|&(u, v)| u == top || v == top) || m.n() == 1 {
            EdgeList::from(arcs_in_some_order(m))
        } else {
            EdgeList::from(AdjacencyList::from(rows(m)))
        }
    }
}

/// An AdjacencyMap with an arbitrary (possibly non-contiguous, but
/// non-empty) vertex set, built only through the public API: `empty(1)`
/// gives V = {0}; `add_arc` admits new endpoints, `remove_arc` keeps them;
/// `filter_vertices` drops vertex 0 if the model doesn't have it.
pub fn build_map_any(m: &Model) -> AdjacencyMap {
    assert!(m.n() > 0);
    let mut d = AdjacencyMap::empty(1);
    if route(m, 2) == 1 {
        // arcs first, in a case- and model-dependent arrival order: every endpoint is
        // admitted by the add_arc that first mentions it (as a tail or as a
        // head); the vertices without arcs come last
        for (u, v) in arcs_in_some_order(m) {
            d.add_arc(u, v);
        }
        for &v in &m.verts {
            if v != 0 && !graaf::HasArc::has_arc(&d, 0, v) {
                d.add_arc(0, v);
                let _ = d.remove_arc(0, v);
            }
        }
    } else {
        for &v in &m.verts {
            if v != 0 {
                d.add_arc(0, v);
                let _ = d.remove_arc(0, v);
            }
        }
        for &(u, v) in m.arcs.keys() {
            d.add_arc(u, v);
        }
    }
    if !m.verts.contains(&0) {
        d = d.filter_vertices(|v| v != 0);
    }
    d
}

/// Build a weighted digraph from (arc, weight) pairs by a route that depends
/// on the model: ascending `add_arc_weighted`; a scrambled order in which some
/// arcs are first added with another weight and then re-added (re-adding
/// replaces the weight); or `From<iterator of weight maps>`.
fn build_weighted<W: Copy + Default + Ord + std::hash::Hash + std::fmt::Debug + Send + Sync + 'static>(m: &Model, conv: impl Fn(i64) -> W, other: W) -> AdjacencyListWeighted<W> {
    let mut d = build_weighted_plain(m, &conv, other);
    if route_edits(m) {
        edit_without_effect_w(&mut d, m, &conv, other);
    }
    d
}

fn build_weighted_plain<W: Copy + Default + Ord + std::hash::Hash + std::fmt::Debug + Send + Sync + 'static>(m: &Model, conv: &impl Fn(i64) -> W, other: W) -> AdjacencyListWeighted<W> {
    use graaf::{AddArcWeighted, Converse, Empty};
    assert!(m.is_contig() && m.n() > 0);
    match route(m, 7) {
        5 => {
            // the converse of the converse, i.e. the result of an operation
            let c = m.converse();
            let mut d = AdjacencyListWeighted::<W>::empty(m.n());
            for (&(u, v), &w) in &c.arcs {
                d.add_arc_weighted(u, v, conv(w));
            }
            d.converse()
        }
        3 => {
            let rows: Vec<BTreeMap<usize, W>> = (0..m.n()).map(|u| m.out_w(u).into_iter().map(|(v, w)| (v, conv(w))).collect()).collect();
            AdjacencyListWeighted::from(rows)
        }
        4 => {
            let mut d = AdjacencyListWeighted::<W>::empty(m.n());
            for (i, (u, v)) in arcs_in_some_order(m).into_iter().enumerate() {
                if i % 3 == 0 {
                    d.add_arc_weighted(u, v, other);
                }
                d.add_arc_weighted(u, v, conv(m.arcs[&(u, v)]));
            }
            d
        }
        _ => {
            let mut d = AdjacencyListWeighted::<W>::empty(m.n());
            for (&(u, v), &w) in &m.arcs {
                d.add_arc_weighted(u, v, conv(w));
            }
            d
        }
    }
}

pub fn build_w_usize(m: &Model) -> AdjacencyListWeighted<usize> {
    build_weighted(m, |w| usize::try_from(w).expect("harness: negative usize weight"), 7)
}

/// Like `build_w_usize`, every weight multiplied by `k` (the caller makes sure
/// that every path sum still fits).
pub fn build_w_usize_scaled(m: &Model, k: usize) -> AdjacencyListWeighted<usize> {
    build_weighted(m, |w| usize::try_from(w).expect("harness: negative usize weight").checked_mul(k).expect("harness: scale overflow"), 7)
}

pub fn build_w_isize_scaled(m: &Model, k: isize) -> AdjacencyListWeighted<isize> {
    build_weighted(m, |w| (w as isize).checked_mul(k).expect("harness: scale overflow"), -7)
}

/// A scale factor for non-negative weights such that the sum of ALL arc
/// weights times the factor still fits in usize (every path sum and every
/// tentative distance Dijkstra can form is bounded by that sum).
pub fn usize_scale(r: &mut crate::rng::Rng, m: &Model) -> usize {
    let total: u128 = m.arcs.values().map(|&w| w as u128).sum();
    if total == 0 {
        return 1;
    }
    // usize::MAX itself is the 'unreachable' sentinel: stay strictly below it
    let max = ((usize::MAX as u128 - 1) / total) as usize;
    match r.below(8) {
        0 => max,
        1 => (max / 2).max(1),
        2 => (1usize << 40).min(max),
        _ => 1,
    }
}

/// A scale factor for isize weights: (n + 1) * (sum |w| + 1) * factor fits in
/// isize, which bounds every value Bellman-Ford / Floyd-Warshall can form
/// (also in the presence of a negative circuit, over n rounds).
pub fn isize_scale(r: &mut crate::rng::Rng, m: &Model) -> isize {
    let total: u128 = m.arcs.values().map(|&w| w.unsigned_abs() as u128).sum::<u128>() + 1;
    let bound = total * (m.n() as u128 + 1);
    let max = (isize::MAX as u128 / bound) as isize;
    match r.below(8) {
        0 => max.max(1),
        1 => (max / 2).max(1),
        2 => (1isize << 30).min(max.max(1)),
        _ => 1,
    }
}

pub fn build_w_isize(m: &Model) -> AdjacencyListWeighted<isize> {
    build_weighted(m, |w| w as isize, -7)
}

pub fn build_w_isize_alt(m: &Model) -> AdjacencyListWeighted<isize> {
    let rows: Vec<BTreeMap<usize, isize>> = (0..m.n())
        .map(|u| m.out_w(u).into_iter().map(|(v, w)| (v, w as isize)).collect())
        .collect();
    AdjacencyListWeighted::from(rows)
}

pub fn build_w_usize_alt(m: &Model) -> AdjacencyListWeighted<usize> {
    let rows: Vec<BTreeMap<usize, usize>> = (0..m.n())
        .map(|u| m.out_w(u).into_iter().map(|(v, w)| (v, w as usize)).collect())
        .collect();
    AdjacencyListWeighted::from(rows)
}

/// Run `$body` with `$D` bound to each of the four unweighted types in turn.
#[macro_export]
macro_rules! for_unweighted {
    ($D:ident, $body:block) => {{
        {
            type $D = graaf::AdjacencyList;
            $body
        }
        {
            type $D = graaf::AdjacencyMap;
            $body
        }
        {
            type $D = graaf::AdjacencyMatrix;
            $body
        }
        {
            type $D = graaf::EdgeList;
            $body
        }
    }};
}

/// Run `$body` with `$D` bound to the unweighted type number `$k`.
#[macro_export]
macro_rules! with_unweighted {
    ($k:expr, $D:ident, $body:block) => {{
        match $k {
            0 => {
                type $D = graaf::AdjacencyList;
                $body
            }
            1 => {
                type $D = graaf::AdjacencyMap;
                $body
            }
            2 => {
                type $D = graaf::AdjacencyMatrix;
                $body
            }
            _ => {
                type $D = graaf::EdgeList;
                $body
            }
        }
    }};
}
