//! Per-case result collection, panic capture, JSON output.

use std::cell::RefCell;
use std::collections::BTreeMap;
use std::fmt::Debug;
use std::panic::{catch_unwind, AssertUnwindSafe};

thread_local! {
    static LAST_PANIC: RefCell<Option<(String, String)>> = const { RefCell::new(None) };
    static VIA_GRAAF: std::cell::Cell<u32> = const { std::cell::Cell::new(0) };
}

/// Run an expression that calls graaf through a `#[track_caller]` entry
/// point — `Index::index` / `IndexMut::index_mut` are declared so in core,
/// and the attribute is inherited by every impl — so that a panic raised
/// inside graaf, whose reported location is then the *harness* line, is not
/// mistaken for a bug of the harness.
pub fn via_graaf<R>(f: impl FnOnce() -> R) -> R {
    VIA_GRAAF.with(|c| c.set(c.get() + 1));
    let r = f();
    VIA_GRAAF.with(|c| c.set(c.get().saturating_sub(1)));
    r
}

static STOP: std::sync::atomic::AtomicBool = std::sync::atomic::AtomicBool::new(false);

/// Ask the shard loop to end after the current case (used after a detected
/// deadlock, when a helper thread is left blocked).
pub fn request_stop() {
    STOP.store(true, std::sync::atomic::Ordering::SeqCst);
}

pub fn stop_requested() -> bool {
    STOP.load(std::sync::atomic::Ordering::SeqCst)
}

pub fn install_panic_hook() {
    std::panic::set_hook(Box::new(|info| {
        let loc = info
            .location()
            .map(|l| format!("{}:{}", l.file(), l.line()))
            .unwrap_or_default();
        let msg = if let Some(s) = info.payload().downcast_ref::<&str>() {
            (*s).to_string()
        } else if let Some(s) = info.payload().downcast_ref::<String>() {
            s.clone()
        } else {
            "<non-string panic>".to_string()
        };
        if msg.contains("unsafe precondition") || msg.contains("cannot unwind") {
            // the process is about to abort: leave a trace for the driver
            eprintln!("non-unwinding panic at {loc}: {msg}");
        }
        let loc = if VIA_GRAAF.with(|c| c.get()) > 0 { format!("graaf(track_caller, reported at harness {loc})") } else { loc };
        LAST_PANIC.with(|p| *p.borrow_mut() = Some((loc, msg)));
    }));
}

#[derive(Clone, Debug)]
pub struct Panicked {
    pub loc: String,
    pub msg: String,
}

impl Panicked {
    /// Did the panic originate in the harness itself (a harness bug)?
    pub fn in_harness(&self) -> bool {
        self.loc.starts_with("src/") || self.loc.contains("/verif/harness/")
    }
}

/// Run `f`, turning an unwinding panic into `Err`.
pub fn catch<R>(f: impl FnOnce() -> R) -> Result<R, Panicked> {
    LAST_PANIC.with(|p| *p.borrow_mut() = None);
    let depth = VIA_GRAAF.with(|c| c.get());
    match catch_unwind(AssertUnwindSafe(f)) {
        Ok(r) => Ok(r),
        Err(_) => {
            VIA_GRAAF.with(|c| c.set(depth));
            let (loc, msg) = LAST_PANIC
                .with(|p| p.borrow_mut().take())
                .unwrap_or_else(|| (String::new(), "<unknown>".into()));
            Err(Panicked { loc, msg })
        }
    }
}

#[derive(Default)]
pub struct CaseOut {
    pub want_desc: bool,
    pub desc: String,
    pub comparisons: u64,
    pub viols: Vec<(String, String)>,
    pub known: Vec<(String, String)>,
    pub nontrivial: bool,
    pub fp: u64,
    pub feats: Vec<(&'static str, u64)>,
    /// the case turned out to be outside the property's domain
    pub skipped: bool,
    /// (site, interleaving signature) of hooked calls
    pub sigs: Vec<(u64, u64)>,
    /// free-form digest of results, compared across configurations by the driver
    /// (key, value, per_config): per_config results may differ between CPU masks
    pub digest: Vec<(u64, u64, bool)>,
}

pub const NOBUCKET: u64 = u64::MAX;

impl CaseOut {
    pub fn bump(&mut self, key: &'static str) {
        self.feats.push((key, NOBUCKET));
    }

    pub fn bumpn(&mut self, key: &'static str, bucket: usize) {
        self.feats.push((key, bucket as u64));
    }

    pub fn viol(&mut self, kind: &str, detail: String) {
        if self.viols.len() < 8 {
            self.viols.push((kind.to_string(), detail));
        }
    }

    /// Count one comparison; record a violation when it fails.
    pub fn check(&mut self, ok: bool, kind: &str, detail: impl FnOnce() -> String) -> bool {
        self.comparisons += 1;
        if !ok {
            let d = detail();
            self.viol(kind, d);
        }
        ok
    }

    pub fn eq<T: PartialEq + Debug + ?Sized>(&mut self, kind: &str, got: &T, want: &T) -> bool {
        self.comparisons += 1;
        if got != want {
            self.viol(kind, format!("got {} want {}", clip(&format!("{got:?}")), clip(&format!("{want:?}"))));
            false
        } else {
            true
        }
    }

    /// The call must panic (a Rust panic, caught); returns true if it did.
    pub fn must_panic<R>(&mut self, kind: &str, what: impl FnOnce() -> String, f: impl FnOnce() -> R) -> bool {
        self.comparisons += 1;
        match catch(f) {
            Err(p) if !p.in_harness() => true,
            Err(p) => {
                std::panic::panic_any(format!("harness panic inside must_panic: {} {}", p.loc, p.msg));
            }
            Ok(_) => {
                let w = what();
                self.viol(kind, format!("no panic: {w}"));
                false
            }
        }
    }

    /// The call must return normally; an unwinding panic is a violation.
    pub fn must_return<R>(&mut self, kind: &str, what: impl FnOnce() -> String, f: impl FnOnce() -> R) -> Option<R> {
        self.comparisons += 1;
        match catch(f) {
            Ok(r) => Some(r),
            Err(p) if p.in_harness() => {
                std::panic::panic_any(format!("harness panic inside must_return: {} {}", p.loc, p.msg));
            }
            Err(p) => {
                let w = what();
                self.viol(kind, format!("unexpected panic `{}` at {}: {w}", clip(&p.msg), p.loc));
                None
            }
        }
    }
}

pub fn clip(s: &str) -> String {
    if s.len() > 400 {
        let mut e = 400;
        while !s.is_char_boundary(e) {
            e -= 1;
        }
        format!("{}…", &s[..e])
    } else {
        s.to_string()
    }
}

pub fn jstr(s: &str) -> String {
    let mut o = String::with_capacity(s.len() + 2);
    o.push('"');
    for c in s.chars() {
        match c {
            '"' => o.push_str("\\\""),
            '\\' => o.push_str("\\\\"),
            '\n' => o.push_str("\\n"),
            '\r' => o.push_str("\\r"),
            '\t' => o.push_str("\\t"),
            c if (c as u32) < 0x20 => o.push_str(&format!("\\u{:04x}", c as u32)),
            c => o.push(c),
        }
    }
    o.push('"');
    o
}

/// Shard-level accumulation.
#[derive(Default)]
pub struct Shard {
    pub cases: u64,
    pub skipped: u64,
    pub comparisons: u64,
    pub nontrivial: u64,
    pub fps: Vec<u64>,
    pub feats: BTreeMap<(&'static str, u64), u64>,
    pub samples: Vec<String>,
    pub viol_cases: u64,
    pub known_cases: u64,
    pub sigs: BTreeMap<u64, std::collections::BTreeSet<u64>>,
}

impl Shard {
    pub fn absorb(&mut self, o: &CaseOut) {
        self.cases += 1;
        if o.skipped {
            self.skipped += 1;
        }
        self.comparisons += o.comparisons;
        if o.nontrivial && !o.skipped {
            self.nontrivial += 1;
            self.fps.push(o.fp);
        }
        for &(k, b) in &o.feats {
            *self.feats.entry((k, b)).or_insert(0) += 1;
        }
        for &(site, sig) in &o.sigs {
            let e = self.sigs.entry(site).or_default();
            if e.len() < 4096 {
                e.insert(sig);
            }
        }
    }

    pub fn sigs_json(&self) -> String {
        let parts: Vec<String> = self
            .sigs
            .iter()
            .map(|(site, set)| {
                let xs: Vec<String> = set.iter().map(|x| format!("\"{x:x}\"")).collect();
                format!("\"{site}\":[{}]", xs.join(","))
            })
            .collect();
        format!("{{{}}}", parts.join(","))
    }

    pub fn feats_json(&self) -> String {
        let mut parts = Vec::new();
        for (&(k, b), &c) in &self.feats {
            let key = if b == NOBUCKET {
                k.to_string()
            } else {
                format!("{k}={b}")
            };
            parts.push(format!("{}:{}", jstr(&key), c));
        }
        format!("{{{}}}", parts.join(","))
    }
}
