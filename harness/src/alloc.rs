//! Counting global allocator: live bytes and live blocks. It only counts
//! (no address is remembered), so leak detectors still see real leaks.

use std::alloc::{GlobalAlloc, Layout, System};
use std::sync::atomic::{AtomicBool, AtomicIsize, Ordering::Relaxed};

pub struct Counting;

static LIVE_BYTES: AtomicIsize = AtomicIsize::new(0);
static LIVE_BLOCKS: AtomicIsize = AtomicIsize::new(0);
static ON: AtomicBool = AtomicBool::new(true);

unsafe impl GlobalAlloc for Counting {
    unsafe fn alloc(&self, l: Layout) -> *mut u8 {
        let p = System.alloc(l);
        if !p.is_null() && ON.load(Relaxed) {
            LIVE_BYTES.fetch_add(l.size() as isize, Relaxed);
            LIVE_BLOCKS.fetch_add(1, Relaxed);
        }
        p
    }

    unsafe fn dealloc(&self, p: *mut u8, l: Layout) {
        System.dealloc(p, l);
        if ON.load(Relaxed) {
            LIVE_BYTES.fetch_sub(l.size() as isize, Relaxed);
            LIVE_BLOCKS.fetch_sub(1, Relaxed);
        }
    }

    unsafe fn alloc_zeroed(&self, l: Layout) -> *mut u8 {
        let p = System.alloc_zeroed(l);
        if !p.is_null() && ON.load(Relaxed) {
            LIVE_BYTES.fetch_add(l.size() as isize, Relaxed);
            LIVE_BLOCKS.fetch_add(1, Relaxed);
        }
        p
    }

    unsafe fn realloc(&self, p: *mut u8, l: Layout, new: usize) -> *mut u8 {
        let q = System.realloc(p, l, new);
        if !q.is_null() && ON.load(Relaxed) {
            LIVE_BYTES.fetch_add(new as isize - l.size() as isize, Relaxed);
        }
        q
    }
}

#[global_allocator]
static GLOBAL: Counting = Counting;

pub fn set_counting(on: bool) {
    ON.store(on, Relaxed);
}

pub fn live() -> (isize, isize) {
    (LIVE_BYTES.load(Relaxed), LIVE_BLOCKS.load(Relaxed))
}

/// Live bytes/blocks at a quiescent point. A worker thread that has handed
/// over its result (scope/join returned) may still own its std thread handle
/// and thread-locals for a moment; on a 1-CPU affinity mask that moment lasts
/// until the measuring thread gives up the CPU. Sleep in short steps until
/// the counters have been stable for a few reads (at most ~60 ms).
pub fn live_settled() -> (isize, isize) {
    let mut last = live();
    let mut stable = 0;
    for _ in 0..200 {
        std::thread::sleep(std::time::Duration::from_micros(300));
        let now = live();
        if now == last {
            stable += 1;
            if stable >= 4 {
                break;
            }
        } else {
            stable = 0;
            last = now;
        }
    }
    last
}
