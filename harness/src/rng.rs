//! Own PRNG (SplitMix64), independent of graaf's.

#[derive(Clone, Debug)]
pub struct Rng(pub u64);

pub fn mix(mut z: u64) -> u64 {
    z = z.wrapping_add(0x9E37_79B9_7F4A_7C15);
    z = (z ^ (z >> 30)).wrapping_mul(0xBF58_476D_1CE4_E5B9);
    z = (z ^ (z >> 27)).wrapping_mul(0x94D0_49BB_1331_11EB);
    z ^ (z >> 31)
}

impl Rng {
    /// A generator that is a pure function of (property tag, seed, case index).
    pub fn for_case(tag: u64, seed: u64, idx: u64) -> Self {
        Rng(mix(mix(mix(tag) ^ seed) ^ idx.wrapping_mul(0xD6E8_FEB8_6659_FD93)))
    }

    pub fn next(&mut self) -> u64 {
        self.0 = self.0.wrapping_add(0x9E37_79B9_7F4A_7C15);
        let mut z = self.0;
        z = (z ^ (z >> 30)).wrapping_mul(0xBF58_476D_1CE4_E5B9);
        z = (z ^ (z >> 27)).wrapping_mul(0x94D0_49BB_1331_11EB);
        z ^ (z >> 31)
    }

    pub fn below(&mut self, n: usize) -> usize {
        if n == 0 {
            0
        } else {
            (self.next() % (n as u64)) as usize
        }
    }

    /// Inclusive range.
    pub fn range(&mut self, lo: usize, hi: usize) -> usize {
        lo + self.below(hi - lo + 1)
    }

    pub fn irange(&mut self, lo: i64, hi: i64) -> i64 {
        lo + (self.next() % ((hi - lo + 1) as u64)) as i64
    }

    pub fn chance(&mut self, p: f64) -> bool {
        (((self.next() >> 11) as f64) / ((1u64 << 53) as f64)) < p
    }

    pub fn pick<'a, T>(&mut self, xs: &'a [T]) -> &'a T {
        &xs[self.below(xs.len())]
    }

    pub fn shuffle<T>(&mut self, xs: &mut [T]) {
        for i in (1..xs.len()).rev() {
            let j = self.below(i + 1);
            xs.swap(i, j);
        }
    }
}

/// FNV-style incremental fingerprint.
#[derive(Clone, Copy, Debug)]
pub struct Fp(pub u64);

impl Default for Fp {
    fn default() -> Self {
        Fp(0xcbf2_9ce4_8422_2325)
    }
}

impl Fp {
    pub fn new() -> Self {
        Self::default()
    }

    pub fn u(&mut self, x: u64) -> &mut Self {
        self.0 = mix(self.0 ^ x);
        self
    }

    pub fn us(&mut self, x: usize) -> &mut Self {
        self.u(x as u64)
    }

    pub fn i(&mut self, x: i64) -> &mut Self {
        self.u(x as u64)
    }

    pub fn s(&mut self, x: &str) -> &mut Self {
        for b in x.bytes() {
            self.0 = (self.0 ^ u64::from(b)).wrapping_mul(0x0100_0000_01b3);
        }
        self.u(x.len() as u64)
    }
}

// ---- seeds that make the FIRST raw output of xoshiro256** (seeded through
// SplitMix64, as published) equal a chosen value. Derived from the published
// algorithms only: the first output is rotl(s1 * 5, 7) * 9 where s1 is the
// second SplitMix64 output, mix(seed + 2 * gamma).

fn inv_odd(c: u64) -> u64 {
    let mut x = c;
    for _ in 0..6 {
        x = x.wrapping_mul(2u64.wrapping_sub(c.wrapping_mul(x)));
    }
    x
}

fn unxorshift(y: u64, k: u32) -> u64 {
    let mut x = y;
    let mut t = y >> k;
    while t != 0 {
        x ^= t;
        t >>= k;
    }
    x
}

fn unmix(z: u64) -> u64 {
    let mut z = unxorshift(z, 31);
    z = z.wrapping_mul(inv_odd(0x94D0_49BB_1331_11EB));
    z = unxorshift(z, 27);
    z = z.wrapping_mul(inv_odd(0xBF58_476D_1CE4_E5B9));
    unxorshift(z, 30)
}

/// The seed for which `Xoshiro256StarStar::new(seed).next()` is `target`.
pub fn seed_for_first_output(target: u64) -> u64 {
    let s1 = target.wrapping_mul(inv_odd(9)).rotate_right(7).wrapping_mul(inv_odd(5));
    unmix(s1).wrapping_sub(0x9E37_79B9_7F4A_7C15u64.wrapping_mul(2))
}

pub const EXTREME_OUTPUTS: [u64; 10] = [
    u64::MAX,
    0,
    0x000F_FFFF_FFFF_FFFF,
    0x001F_FFFF_FFFF_FFFF,
    0xFFF0_0000_0000_0000,
    1 << 52,
    1 << 53,
    1,
    u64::MAX - 1,
    0x7FFF_FFFF_FFFF_FFFF,
];
