//! The reference digraph: plain sets and maps, textbook definitions written as
//! the most naive loops. Shares no code with graaf and uses no unsafe.

use std::collections::{BTreeMap, BTreeSet, VecDeque};

pub const INF: i64 = i64::MAX;

#[derive(Clone, Debug, PartialEq, Eq, Default)]
pub struct Model {
    pub verts: BTreeSet<usize>,
    /// arc -> weight (1 for unweighted digraphs)
    pub arcs: BTreeMap<(usize, usize), i64>,
}

impl Model {
    pub fn new(n: usize) -> Self {
        Model {
            verts: (0..n).collect(),
            arcs: BTreeMap::new(),
        }
    }

    pub fn from_arcs(n: usize, arcs: &[(usize, usize)]) -> Self {
        let mut m = Model::new(n);
        for &(u, v) in arcs {
            m.add(u, v, 1);
        }
        m
    }

    pub fn n(&self) -> usize {
        self.verts.len()
    }

    pub fn size(&self) -> usize {
        self.arcs.len()
    }

    pub fn is_contig(&self) -> bool {
        self.verts.iter().copied().eq(0..self.verts.len())
    }

    /// Adds the arc (and both endpoints); replaces the weight.
    pub fn add(&mut self, u: usize, v: usize, w: i64) {
        assert_ne!(u, v, "model: self-loop");
        self.verts.insert(u);
        self.verts.insert(v);
        self.arcs.insert((u, v), w);
    }

    pub fn remove(&mut self, u: usize, v: usize) -> bool {
        self.arcs.remove(&(u, v)).is_some()
    }

    pub fn has(&self, u: usize, v: usize) -> bool {
        self.arcs.contains_key(&(u, v))
    }

    pub fn w(&self, u: usize, v: usize) -> Option<i64> {
        self.arcs.get(&(u, v)).copied()
    }

    pub fn out(&self, u: usize) -> Vec<usize> {
        self.arcs
            .range((u, 0)..=(u, usize::MAX))
            .map(|(&(_, v), _)| v)
            .collect()
    }

    pub fn out_w(&self, u: usize) -> Vec<(usize, i64)> {
        self.arcs
            .range((u, 0)..=(u, usize::MAX))
            .map(|(&(_, v), &w)| (v, w))
            .collect()
    }

    pub fn inn(&self, v: usize) -> Vec<usize> {
        self.arcs
            .keys()
            .filter(|&&(_, y)| y == v)
            .map(|&(x, _)| x)
            .collect()
    }

    pub fn outdeg(&self, u: usize) -> usize {
        self.out(u).len()
    }

    pub fn indeg(&self, v: usize) -> usize {
        self.inn(v).len()
    }

    pub fn arc_list(&self) -> Vec<(usize, usize)> {
        self.arcs.keys().copied().collect()
    }

    pub fn arc_list_w(&self) -> Vec<(usize, usize, i64)> {
        self.arcs.iter().map(|(&(u, v), &w)| (u, v, w)).collect()
    }

    pub fn vert_list(&self) -> Vec<usize> {
        self.verts.iter().copied().collect()
    }

    // ---- set operations ------------------------------------------------

    pub fn complement(&self) -> Model {
        let mut m = Model {
            verts: self.verts.clone(),
            arcs: BTreeMap::new(),
        };
        for &u in &self.verts {
            for &v in &self.verts {
                if u != v && !self.has(u, v) {
                    m.arcs.insert((u, v), 1);
                }
            }
        }
        m
    }

    pub fn converse(&self) -> Model {
        Model {
            verts: self.verts.clone(),
            arcs: self.arcs.iter().map(|(&(u, v), &w)| ((v, u), w)).collect(),
        }
    }

    pub fn union(&self, o: &Model) -> Model {
        let mut m = self.clone();
        for &v in &o.verts {
            m.verts.insert(v);
        }
        for (&a, &w) in &o.arcs {
            m.arcs.insert(a, w);
        }
        m
    }

    pub fn induced(&self, p: impl Fn(usize) -> bool) -> Model {
        Model {
            verts: self.verts.iter().copied().filter(|&v| p(v)).collect(),
            arcs: self
                .arcs
                .iter()
                .filter(|(&(u, v), _)| p(u) && p(v))
                .map(|(&a, &w)| (a, w))
                .collect(),
        }
    }

    /// Well-formed: no self-loop, endpoints in V.
    pub fn valid(&self) -> bool {
        self.arcs
            .keys()
            .all(|&(u, v)| u != v && self.verts.contains(&u) && self.verts.contains(&v))
    }

    // ---- predicates ----------------------------------------------------

    pub fn is_complete(&self) -> bool {
        self.verts
            .iter()
            .all(|&u| self.verts.iter().all(|&v| u == v || self.has(u, v)))
    }

    pub fn is_semicomplete(&self) -> bool {
        self.verts.iter().all(|&u| {
            self.verts
                .iter()
                .all(|&v| u == v || self.has(u, v) || self.has(v, u))
        })
    }

    pub fn is_tournament(&self) -> bool {
        self.verts.iter().all(|&u| {
            self.verts
                .iter()
                .all(|&v| u == v || (self.has(u, v) != self.has(v, u)))
        })
    }

    pub fn is_regular(&self) -> bool {
        let mut it = self.verts.iter();
        let Some(&f) = it.next() else { return true };
        let k = self.outdeg(f);
        self.verts
            .iter()
            .all(|&u| self.outdeg(u) == k && self.indeg(u) == k)
    }

    pub fn is_balanced(&self) -> bool {
        self.verts.iter().all(|&u| self.outdeg(u) == self.indeg(u))
    }

    pub fn is_symmetric(&self) -> bool {
        self.arcs.keys().all(|&(u, v)| self.has(v, u))
    }

    pub fn is_oriented(&self) -> bool {
        self.arcs.keys().all(|&(u, v)| !self.has(v, u))
    }

    pub fn is_subdigraph_of(&self, d: &Model) -> bool {
        self.verts.iter().all(|v| d.verts.contains(v))
            && self.arcs.keys().all(|&(u, v)| d.has(u, v))
    }

    pub fn is_spanning_subdigraph_of(&self, d: &Model) -> bool {
        self.verts == d.verts && self.arcs.keys().all(|&(u, v)| d.has(u, v))
    }

    // ---- reachability and distances -------------------------------------

    pub fn reach(&self, sources: &[usize]) -> BTreeSet<usize> {
        let mut seen: BTreeSet<usize> = BTreeSet::new();
        let mut todo: Vec<usize> = Vec::new();
        for &s in sources {
            if seen.insert(s) {
                todo.push(s);
            }
        }
        while let Some(u) = todo.pop() {
            for v in self.out(u) {
                if seen.insert(v) {
                    todo.push(v);
                }
            }
        }
        seen
    }

    /// Hop distance from the nearest source.
    pub fn levels(&self, sources: &[usize]) -> BTreeMap<usize, usize> {
        let mut lvl: BTreeMap<usize, usize> = BTreeMap::new();
        let mut q = VecDeque::new();
        for &s in sources {
            if !lvl.contains_key(&s) {
                lvl.insert(s, 0);
                q.push_back(s);
            }
        }
        while let Some(u) = q.pop_front() {
            let l = lvl[&u];
            for v in self.out(u) {
                if !lvl.contains_key(&v) {
                    lvl.insert(v, l + 1);
                    q.push_back(v);
                }
            }
        }
        lvl
    }

    /// Bellman-Ford from a virtual super-source joined to `sources` by
    /// zero-weight arcs. `Err(())` iff a negative circuit is reachable.
    /// Unreachable vertices are absent from the map.
    pub fn dist_from(&self, sources: &[usize]) -> Result<BTreeMap<usize, i64>, ()> {
        let mut d: BTreeMap<usize, i64> = BTreeMap::new();
        for &s in sources {
            d.insert(s, 0);
        }
        let n = self.n();
        for round in 0..=n {
            let mut changed = false;
            for (&(u, v), &w) in &self.arcs {
                if let Some(&du) = d.get(&u) {
                    let c = du + w;
                    match d.get(&v) {
                        Some(&dv) if dv <= c => {}
                        _ => {
                            d.insert(v, c);
                            changed = true;
                        }
                    }
                }
            }
            if !changed {
                return Ok(d);
            }
            if round == n {
                return Err(());
            }
        }
        Ok(d)
    }

    /// Is there any negative circuit in the digraph (reachable from all)?
    pub fn has_negative_circuit(&self) -> bool {
        let all: Vec<usize> = self.vert_list();
        self.dist_from(&all).is_err()
    }

    /// Strongly connected components as classes of mutual reachability.
    pub fn sccs(&self) -> BTreeSet<BTreeSet<usize>> {
        let reach: BTreeMap<usize, BTreeSet<usize>> =
            self.verts.iter().map(|&v| (v, self.reach(&[v]))).collect();
        let mut out = BTreeSet::new();
        for &u in &self.verts {
            let c: BTreeSet<usize> = self
                .verts
                .iter()
                .copied()
                .filter(|&v| reach[&u].contains(&v) && reach[&v].contains(&u))
                .collect();
            out.insert(c);
        }
        out
    }

    /// All elementary circuits, each written from its smallest vertex.
    pub fn circuits(&self) -> BTreeSet<Vec<usize>> {
        fn go(m: &Model, s: usize, path: &mut Vec<usize>, out: &mut BTreeSet<Vec<usize>>) {
            let u = *path.last().unwrap();
            for v in m.out(u) {
                if v == s {
                    if path.len() >= 2 {
                        out.insert(path.clone());
                    }
                } else if v > s && !path.contains(&v) {
                    path.push(v);
                    go(m, s, path, out);
                    path.pop();
                }
            }
        }
        let mut out = BTreeSet::new();
        for &s in &self.verts {
            let mut path = vec![s];
            go(self, s, &mut path, &mut out);
        }
        out
    }

    pub fn is_walk(&self, walk: &[usize]) -> bool {
        walk.len() >= 2 && walk.windows(2).all(|p| self.has(p[0], p[1]))
    }

    pub fn fingerprint(&self, fp: &mut crate::rng::Fp) {
        fp.us(self.verts.len());
        for &v in &self.verts {
            fp.us(v);
        }
        for (&(u, v), &w) in &self.arcs {
            fp.us(u).us(v).i(w);
        }
    }

    pub fn describe(&self) -> String {
        let unit = self.arcs.values().all(|&w| w == 1);
        let total = self.arcs.len();
        let mut arcs: Vec<String> = self
            .arcs
            .iter()
            .take(if total > 600 { 300 } else { total })
            .map(|(&(u, v), &w)| {
                if unit {
                    format!("{u}>{v}")
                } else {
                    format!("{u}>{v}:{w}")
                }
            })
            .collect();
        if total > 600 {
            arcs.push(format!("… ({total} arcs in all; replay by seed and index for the full case)"));
        }
        if self.is_contig() {
            format!("n={} arcs=[{}]", self.n(), arcs.join(","))
        } else {
            format!("V={:?} arcs=[{}]", self.vert_list(), arcs.join(","))
        }
    }
}
