//! gverif — runtime monitors for graaf. One process runs one shard
//! (property, seed, index range) and prints JSON lines on stdout.

mod alloc;
mod ctx;
mod events;
mod gen;
mod model;
mod obs;
mod props;
mod reprs;
mod rng;

use ctx::{catch, jstr, CaseOut, Shard};
use std::collections::BTreeMap;
use std::io::Write;

#[derive(Default, Clone)]
pub struct Params(pub BTreeMap<String, String>);

impl Params {
    pub fn usize(&self, k: &str, d: usize) -> usize {
        self.0.get(k).and_then(|s| s.parse().ok()).unwrap_or(d)
    }

    pub fn u64(&self, k: &str, d: u64) -> u64 {
        self.0.get(k).and_then(|s| s.parse().ok()).unwrap_or(d)
    }

    pub fn str(&self, k: &str, d: &str) -> String {
        self.0.get(k).cloned().unwrap_or_else(|| d.to_string())
    }

    pub fn flag(&self, k: &str) -> bool {
        self.0.get(k).is_some_and(|s| s != "0" && s != "false")
    }
}

type CaseFn = fn(u64, u64, &Params, &mut CaseOut);

fn registry(prop: &str) -> Option<CaseFn> {
    Some(match prop {
        "C01" => props::c01::case,
        "C02" => props::c02::case,
        "C03" => props::c03::case,
        "C04" => props::c04::case,
        "C05" => props::c05::case,
        "C06" => props::c06::case,
        "C07" => props::c07::case,
        "C08" => props::c08::case,
        "C09" => props::c09::case,
        "C10" => props::c10::case,
        "C11" => props::c11::case,
        "C12" => props::c12::case,
        "C13" => props::c13::case,
        "C14" => props::c14::case,
        "C15" => props::c15::case,
        "C16" => props::c16::case,
        "C17" => props::c17::case,
        "C18" => props::c18::case,
        "C19" => props::c19::case,
        "C20" => props::c20::case,
        _ => return None,
    })
}

/// Index of the case being run (u64::MAX: none), for the case-deadline watcher.
static CASE_NOW: std::sync::atomic::AtomicU64 = std::sync::atomic::AtomicU64::new(u64::MAX);

fn main() {
    let args: Vec<String> = std::env::args().collect();
    if args.len() < 2 {
        eprintln!("usage: gverif <Cxx> [--seed S] [--lo A] [--hi B] [--markers] [--fp-file F] [--case I] [-p k=v]...");
        std::process::exit(3);
    }
    let prop = args[1].clone();
    let mut seed = 0u64;
    let mut lo = 0u64;
    let mut hi = 0u64;
    let mut markers = false;
    let mut fp_file: Option<String> = None;
    let mut one: Option<u64> = None;
    let mut params = Params::default();
    let mut i = 2;
    while i < args.len() {
        let a = args[i].as_str();
        let mut val = || {
            i += 1;
            args.get(i).cloned().unwrap_or_default()
        };
        match a {
            "--seed" => seed = val().parse().expect("seed"),
            "--lo" => lo = val().parse().expect("lo"),
            "--hi" => hi = val().parse().expect("hi"),
            "--markers" => markers = true,
            "--fp-file" => fp_file = Some(val()),
            "--case" => one = Some(val().parse().expect("case")),
            "-p" => {
                let kv = val();
                let (k, v) = kv.split_once('=').unwrap_or((kv.as_str(), "1"));
                params.0.insert(k.to_string(), v.to_string());
            }
            _ => {
                eprintln!("unknown argument {a}");
                std::process::exit(3);
            }
        }
        i += 1;
    }
    let Some(f) = registry(&prop) else {
        eprintln!("unknown property {prop}");
        std::process::exit(3);
    };
    ctx::install_panic_hook();
    gen::set_big_cap(params.usize("big_cap", usize::MAX));
    if params.flag("noalloc") {
        alloc::set_counting(false);
    }
    // A case that does not come back (a loop that never ends in the code under
    // test) must not cost the whole job timeout: outside Miri a watcher ends the
    // process once ONE case has been running for `case_deadline_s` seconds
    // (cases take milliseconds to a few seconds). The driver reads the marker,
    // files the case as "no verdict" and goes on with the next case.
    let deadline_s = params.u64("case_deadline_s", 150);
    if !cfg!(miri) && markers && deadline_s > 0 {
        let _ = std::thread::Builder::new().name("case-deadline".into()).spawn(move || {
            let mut seen = (u64::MAX, std::time::Instant::now());
            loop {
                std::thread::sleep(std::time::Duration::from_millis(500));
                let cur = CASE_NOW.load(std::sync::atomic::Ordering::Relaxed);
                if cur != seen.0 {
                    seen = (cur, std::time::Instant::now());
                } else if cur != u64::MAX && seen.1.elapsed().as_secs() >= deadline_s {
                    eprintln!("\nCASE-DEADLINE-EXCEEDED idx={cur} seconds={deadline_s}");
                    std::process::exit(97);
                }
            }
        });
    }
    let stdout = std::io::stdout();
    let mut out = std::io::BufWriter::new(stdout.lock());
    let mut shard = Shard::default();
    let (lo, hi) = match one {
        Some(c) => (c, c + 1),
        None => (lo, hi),
    };
    let max_samples = 3;
    for idx in lo..hi {
        if markers {
            let _ = writeln!(out, "{{\"t\":\"begin\",\"i\":{idx}}}");
            let _ = out.flush();
        }
        CASE_NOW.store(idx, std::sync::atomic::Ordering::Relaxed);
        let mut o = CaseOut {
            want_desc: one.is_some(),
            ..Default::default()
        };
        let pollute_every = params.u64("pollute_every", 50);
        if pollute_every > 0 && rng::mix(idx ^ 0x9e37) % pollute_every == 0 {
            let mut pr = rng::Rng::for_case(4242, seed, idx);
            let _ = catch(|| gen::pollute(&mut pr));
        }
        reprs::set_route_salt(rng::mix(seed ^ idx.rotate_left(23) ^ 0x5a17));
        let r = catch(|| f(idx, seed, &params, &mut o));
        if let Err(p) = &r {
            if p.in_harness() {
                let _ = writeln!(
                    out,
                    "{{\"t\":\"harness_error\",\"i\":{idx},\"msg\":{}}}",
                    jstr(&format!("{} at {}", p.msg, p.loc))
                );
                continue;
            }
            o.viol(
                "unexpected-panic",
                format!("panic `{}` at {} escaped from a call the monitor expected to return", ctx::clip(&p.msg), p.loc),
            );
        }
        let interesting = !o.viols.is_empty()
            || !o.known.is_empty()
            || (o.nontrivial && !o.skipped && shard.samples.len() < max_samples);
        if interesting && !o.want_desc && ctx::stop_requested() {
            // a helper thread is blocked inside the code under test: running the case again could block too
            o.desc = format!("(case {idx}: not written out, the shard is being stopped after a detected deadlock; replay by seed and index)");
        } else if interesting && !o.want_desc {
            // re-run deterministically to obtain the written-out case
            let mut o2 = CaseOut {
                want_desc: true,
                ..Default::default()
            };
            let _ = catch(|| f(idx, seed, &params, &mut o2));
            o.desc = o2.desc;
        }
        if !o.viols.is_empty() {
            shard.viol_cases += 1;
            for (k, d) in &o.viols {
                let _ = writeln!(
                    out,
                    "{{\"t\":\"viol\",\"i\":{idx},\"kind\":{},\"detail\":{},\"desc\":{}}}",
                    jstr(k),
                    jstr(d),
                    jstr(&o.desc)
                );
            }
        }
        if !o.known.is_empty() {
            shard.known_cases += 1;
            for (s, d) in &o.known {
                let _ = writeln!(
                    out,
                    "{{\"t\":\"known\",\"i\":{idx},\"sig\":{},\"detail\":{},\"desc\":{}}}",
                    jstr(s),
                    jstr(d),
                    jstr(&o.desc)
                );
            }
        }
        if o.viols.is_empty() && o.nontrivial && !o.skipped && shard.samples.len() < max_samples {
            shard.samples.push(format!("#{idx}: {}", o.desc));
        }
        if one.is_some() {
            let _ = writeln!(
                out,
                "{{\"t\":\"case\",\"i\":{idx},\"desc\":{},\"comparisons\":{},\"nontrivial\":{},\"skipped\":{}}}",
                jstr(&o.desc),
                o.comparisons,
                o.nontrivial,
                o.skipped
            );
        }
        for &(k, v, per_cfg) in &o.digest {
            let _ = writeln!(out, "{{\"t\":\"digest\",\"i\":{idx},\"k\":\"{k:x}\",\"v\":\"{v:x}\",\"per_config\":{per_cfg}}}");
        }
        shard.absorb(&o);
        if ctx::stop_requested() {
            break;
        }
    }
    CASE_NOW.store(u64::MAX, std::sync::atomic::Ordering::Relaxed);
    let mut distinct = shard.fps.clone();
    distinct.sort_unstable();
    distinct.dedup();
    if let Some(p) = fp_file {
        let mut bytes = Vec::with_capacity(distinct.len() * 8);
        for x in &distinct {
            bytes.extend_from_slice(&x.to_le_bytes());
        }
        if let Err(e) = std::fs::write(&p, bytes) {
            eprintln!("cannot write {p}: {e}");
        }
    }
    let samples: Vec<String> = shard.samples.iter().map(|s| jstr(s)).collect();
    let _ = writeln!(
        out,
        "{{\"t\":\"summary\",\"prop\":{},\"seed\":{seed},\"lo\":{lo},\"hi\":{hi},\"cases\":{},\"skipped\":{},\"comparisons\":{},\"nontrivial\":{},\"distinct_nontrivial\":{},\"viol_cases\":{},\"known_cases\":{},\"feats\":{},\"sigs\":{},\"samples\":[{}]}}",
        jstr(&prop),
        shard.cases,
        shard.skipped,
        shard.comparisons,
        shard.nontrivial,
        distinct.len(),
        shard.viol_cases,
        shard.known_cases,
        shard.feats_json(),
        shard.sigs_json(),
        samples.join(",")
    );
    let _ = out.flush();
    props::c19::shutdown_helper();
    // let worker threads that have been joined finish their teardown before
    // the exit-time leak check looks at the heap
    std::thread::sleep(std::time::Duration::from_millis(3));
}
