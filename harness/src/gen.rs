//! Seeded, deliberately adversarial workload generators.

use crate::model::Model;
use crate::rng::Rng;
use std::collections::BTreeSet;

pub const DENSITIES: [f64; 9] = [0.0, 0.05, 0.1, 0.2, 0.3, 0.5, 0.7, 0.9, 1.0];
pub const BOUNDARY_ORDERS: [usize; 11] = [8, 9, 15, 16, 17, 31, 32, 33, 63, 64, 65];
pub const SPARSE_POOL: [usize; 9] = [0, 2, 3, 5, 7, 64, 65, 1000, 1 << 20];

pub const FAMILIES: [&str; 18] = [
    "random",
    "empty",
    "complete",
    "path",
    "circuit",
    "cycle",
    "star",
    "wheel",
    "biclique",
    "tournament",
    "dag",
    "layered",
    "out_tree",
    "in_tree",
    "sccs_dag",
    "circulant",
    "near_boundary",
    "symmetric_pm1",
];

pub fn random_arcs(r: &mut Rng, n: usize, p: f64) -> Model {
    let mut m = Model::new(n);
    for u in 0..n {
        for v in 0..n {
            if u != v && r.chance(p) {
                m.add(u, v, 1);
            }
        }
    }
    m
}

/// Legal but unrelated API use, run before some cases on the same thread: a
/// later call must not depend on what the thread did earlier (thread-local
/// scratch buffers, caches that only grow, state left behind by a caught
/// panic). All panics are caught; results are discarded.
pub fn pollute(r: &mut Rng) {
    use crate::ctx::catch;
    use graaf::*;
    for _ in 0..r.range(1, 3) {
        match r.below(9) {
            0 => {
                // searches on cyclic / self-referential predecessor vectors
                let n = r.range(1, 8);
                let pred: Vec<Option<usize>> = (0..n).map(|_| if r.chance(0.15) { None } else { Some(r.below(n)) }).collect();
                let t = PredecessorTree::from(pred);
                let (s, x) = (r.below(n), r.below(n));
                // (bounded: a search that never ends must not hang the pollution step)
                let calls = std::cell::Cell::new(0usize);
                let tick = |hit: bool| {
                    calls.set(calls.get() + 1);
                    assert!(calls.get() <= 4 * n + 16, "harness: pollution search gave up");
                    hit
                };
                let _ = catch(|| t.search_by(s, |&v, _| tick(v == x)));
                calls.set(0);
                let _ = catch(|| t.search_by(s, |_, p| tick(p.is_none())));
            }
            1 => {
                // a constructor that unwinds half-way through its input
                let n = r.range(2, 6);
                let mut arcs: Vec<(usize, usize)> = (0..r.range(1, 5)).map(|_| (r.below(n), n + r.below(3))).collect();
                arcs.push((n, n));
                let _ = catch(|| AdjacencyMatrix::from(arcs.clone()).order());
                let _ = catch(|| EdgeList::from(arcs.clone()).order());
                let rows: Vec<std::collections::BTreeSet<usize>> = (0..n).map(|u| [(u + 1) % n, if u == n - 1 { u } else { (u + 2) % n }].into_iter().collect()).collect();
                let _ = catch(|| AdjacencyList::from(rows.clone()).order());
                let _ = catch(|| AdjacencyMap::from(rows).order());
            }
            2 => {
                // bigger objects than the case will use
                let n = *r.pick(&[40usize, 70, 130]);
                let _ = catch(|| match n % 4 {
                    0 => AdjacencyMap::complete(n).order(),
                    1 => AdjacencyList::cycle(n + 200).order(),
                    2 => AdjacencyMatrix::star(n + 200).order(),
                    _ => EdgeList::path(n + 200).order(),
                });
            }
            3 => {
                // traversals that panic on a source outside the digraph
                let d = AdjacencyList::cycle(5);
                let _ = catch(|| Bfs::new(&d, [9usize].into_iter()).count());
                let _ = catch(|| Dfs::new(&d, [9usize].into_iter()).count());
                let _ = catch(|| BfsPred::new(&d, [0usize, 7].into_iter()).predecessors());
            }
            4 => {
                let d = AdjacencyMap::circuit(r.range(2, 40));
                let _ = catch(|| Johnson75::new(&d).circuits().len());
                let _ = catch(|| Tarjan::new(&d).components().len());
            }
            5 => {
                let n = r.range(2, 30);
                let d = AdjacencyMatrix::random_tournament(n, r.next());
                let _ = catch(|| (d.complement().size(), d.converse().size(), d.union(&AdjacencyMatrix::cycle(n + 3)).size()));
            }
            6 => {
                let mut d = AdjacencyListWeighted::<isize>::empty(4);
                let _ = catch(|| d.add_arc_weighted(0, 1, -3));
                let _ = catch(|| d.add_arc_weighted(1, 0, 1));
                let _ = catch(|| d.add_arc_weighted(1, 9, 1));
                let _ = catch(|| BellmanFordMoore::new(&d, 0).distances().map(<[isize]>::to_vec));
                let _ = catch(|| FloydWarshall::new(&d).distances().center());
            }
            7 => {
                let n = r.range(20, 90);
                let _ = catch(|| (AdjacencyMap::erdos_renyi(n, 0.7, r.next()).size(), AdjacencyMap::random_tournament(n, r.next()).size()));
            }
            _ => {
                let a = AdjacencyList::complete(r.range(1, 40));
                let b = AdjacencyList::path(r.range(1, 60));
                let _ = catch(|| (a.union(&b).size(), a.complement().size(), b.is_semicomplete(), a.degree_sequence().count()));
            }
        }
    }
}

/// One of the nine public fixtures of the repository (the inputs whose
/// expected values the test-suite pins), read back through arcs()/order().
pub fn fixture(r: &mut Rng) -> Model {
    use graaf::repr::adjacency_list::fixture as f;
    use graaf::{Arcs, Order};
    let d = match r.below(9) {
        0 => f::bang_jensen_196(),
        1 => f::bang_jensen_34(),
        2 => f::bang_jensen_94(),
        3 => f::kattis_builddeps(),
        4 => f::kattis_cantinaofbabel_1(),
        5 => f::kattis_cantinaofbabel_2(),
        6 => f::kattis_escapewallmaria_1(),
        7 => f::kattis_escapewallmaria_2(),
        _ => f::kattis_escapewallmaria_3(),
    };
    let mut m = Model::new(d.order());
    for (u, v) in d.arcs() {
        m.arcs.insert((u, v), 1);
    }
    m
}

/// One of the weighted fixtures (usize weights; the isize twins have the
/// same arcs and weights).
pub fn fixture_weighted(r: &mut Rng) -> Model {
    use graaf::repr::adjacency_list_weighted::fixture as f;
    use graaf::{ArcsWeighted, Order};
    let d = match r.below(7) {
        0 => f::bang_jensen_94_usize(),
        1 => f::bang_jensen_96_usize(),
        2 => f::kattis_bryr_1_usize(),
        3 => f::kattis_bryr_2_usize(),
        4 => f::kattis_bryr_3_usize(),
        5 => f::kattis_crosscountry_usize(),
        _ => f::kattis_shortestpath1_usize(),
    };
    let mut m = Model::new(d.order());
    for (u, v, w) in d.arcs_weighted() {
        m.arcs.insert((u, v), *w as i64);
    }
    m
}

/// One of the isize-weighted fixtures, including the two that exist only
/// with isize weights (negative arcs).
pub fn fixture_weighted_isize(r: &mut Rng) -> Model {
    use graaf::repr::adjacency_list_weighted::fixture as f;
    use graaf::{ArcsWeighted, Order};
    let d = match r.below(9) {
        0 => f::bang_jensen_94_isize(),
        1 => f::bang_jensen_96_isize(),
        2 => f::bang_jensen_99(),
        3 => f::kattis_bryr_1_isize(),
        4 => f::kattis_bryr_2_isize(),
        5 => f::kattis_bryr_3_isize(),
        6 => f::kattis_crosscountry_isize(),
        7 => f::kattis_shortestpath1_isize(),
        _ => f::kattis_shortestpath3(),
    };
    let mut m = Model::new(d.order());
    for (u, v, w) in d.arcs_weighted() {
        m.arcs.insert((u, v), *w as i64);
    }
    m
}

/// About `k` arcs per vertex, any order.
pub fn sparse_random(r: &mut Rng, n: usize, k: usize) -> Model {
    let mut m = Model::new(n);
    if n < 2 {
        return m;
    }
    for u in 0..n {
        for _ in 0..r.below(k + 1) {
            let v = r.below(n);
            if v != u {
                m.add(u, v, 1);
            }
        }
    }
    m
}

/// A digraph for an algorithm property: any family at small orders, sparse
/// families / sparse random arcs at big orders.
pub fn algo_digraph(r: &mut Rng, small_max: usize, big_max: usize) -> (Model, &'static str) {
    if r.below(64) == 0 {
        return (fixture(r), "repo_fixture");
    }
    let n = algo_order(r, small_max, big_max);
    if n <= small_max {
        let f = r.below(FAMILIES.len());
        (family(r, f, n), FAMILIES[f])
    } else if r.chance(0.5) {
        let f = sparse_family(r);
        (family(r, f, n), FAMILIES[f])
    } else {
        let k = r.range(1, 3);
        (sparse_random(r, n, k), "sparse_random_big")
    }
}

pub fn tournament(r: &mut Rng, n: usize) -> Model {
    let mut m = Model::new(n);
    for u in 0..n {
        for v in (u + 1)..n {
            if r.chance(0.5) {
                m.add(u, v, 1);
            } else {
                m.add(v, u, 1);
            }
        }
    }
    m
}

/// A digraph of exactly order `n` from family `fam` (index into FAMILIES).
pub fn family(r: &mut Rng, fam: usize, n: usize) -> Model {
    let mut m = Model::new(n);
    match FAMILIES[fam] {
        "random" => {
            let p = *r.pick(&DENSITIES);
            return random_arcs(r, n, p);
        }
        "empty" => {}
        "complete" => {
            for u in 0..n {
                for v in 0..n {
                    if u != v {
                        m.add(u, v, 1);
                    }
                }
            }
        }
        "path" => {
            for u in 0..n.saturating_sub(1) {
                m.add(u, u + 1, 1);
            }
        }
        "circuit" => {
            if n > 1 {
                for u in 0..n {
                    m.add(u, (u + 1) % n, 1);
                }
            }
        }
        "cycle" => {
            if n > 1 {
                for u in 0..n {
                    m.add(u, (u + 1) % n, 1);
                    m.add((u + 1) % n, u, 1);
                }
            }
        }
        "star" => {
            for u in 1..n {
                m.add(0, u, 1);
                m.add(u, 0, 1);
            }
        }
        "wheel" => {
            if n >= 4 {
                for u in 1..n {
                    m.add(0, u, 1);
                    m.add(u, 0, 1);
                    let nx = if u == n - 1 { 1 } else { u + 1 };
                    m.add(u, nx, 1);
                    m.add(nx, u, 1);
                }
            } else {
                return random_arcs(r, n, 0.5);
            }
        }
        "biclique" => {
            if n >= 2 {
                let a = r.range(1, n - 1);
                for u in 0..a {
                    for v in a..n {
                        m.add(u, v, 1);
                        m.add(v, u, 1);
                    }
                }
            }
        }
        "tournament" => return tournament(r, n),
        "dag" => {
            let p = *r.pick(&[0.1, 0.3, 0.6, 1.0]);
            let mut perm: Vec<usize> = (0..n).collect();
            r.shuffle(&mut perm);
            for i in 0..n {
                for j in (i + 1)..n {
                    if r.chance(p) {
                        m.add(perm[i], perm[j], 1);
                    }
                }
            }
        }
        "layered" => {
            let layers = r.range(1, n.clamp(1, 5));
            let lay: Vec<usize> = (0..n).map(|_| r.below(layers)).collect();
            let p = *r.pick(&[0.2, 0.5, 1.0]);
            for u in 0..n {
                for v in 0..n {
                    if lay[v] == lay[u] + 1 && r.chance(p) {
                        m.add(u, v, 1);
                    }
                }
            }
        }
        "out_tree" => {
            for v in 1..n {
                let u = r.below(v);
                m.add(u, v, 1);
            }
        }
        "in_tree" => {
            for v in 1..n {
                let u = r.below(v);
                m.add(v, u, 1);
            }
        }
        "sccs_dag" => {
            // several strongly connected blocks joined by forward arcs, with
            // extra tree/back/cross arcs inside blocks
            let k = r.range(1, n.clamp(1, 5));
            let mut perm: Vec<usize> = (0..n).collect();
            r.shuffle(&mut perm);
            let blk: Vec<usize> = (0..n).map(|i| i * k / n.max(1)).collect();
            for b in 0..k {
                let mem: Vec<usize> = (0..n).filter(|&i| blk[i] == b).map(|i| perm[i]).collect();
                if mem.len() > 1 {
                    for i in 0..mem.len() {
                        m.add(mem[i], mem[(i + 1) % mem.len()], 1);
                    }
                    for _ in 0..r.below(mem.len() + 1) {
                        let a = *r.pick(&mem);
                        let c = *r.pick(&mem);
                        if a != c {
                            m.add(a, c, 1);
                        }
                    }
                }
            }
            for i in 0..n {
                for j in 0..n {
                    if blk[i] < blk[j] && r.chance(0.15) {
                        m.add(perm[i], perm[j], 1);
                    }
                }
            }
        }
        "circulant" => {
            if n > 1 {
                let k = r.range(1, (n - 1).min(4));
                let mut jumps = BTreeSet::new();
                for _ in 0..k {
                    jumps.insert(r.range(1, n - 1));
                }
                for u in 0..n {
                    for &j in &jumps {
                        m.add(u, (u + j) % n, 1);
                    }
                }
                // sometimes perturb: flip one pair, or move the tail / the head
                // of one arc (keeps all indegrees resp. all outdegrees)
                match r.below(10) {
                    0..=2 => perturb(r, &mut m),
                    3 | 4 => move_endpoint(r, &mut m, true),
                    5 | 6 => move_endpoint(r, &mut m, false),
                    _ => {}
                }
            }
        }
        "near_boundary" => {
            // a tournament / semicomplete / complete digraph moved by one pair
            let mut t = match r.below(3) {
                0 => tournament(r, n),
                1 => {
                    let mut t = tournament(r, n);
                    for u in 0..n {
                        for v in 0..n {
                            if u != v && r.chance(0.3) {
                                t.add(u, v, 1);
                            }
                        }
                    }
                    t
                }
                _ => family(r, 2, n),
            };
            if n >= 2 {
                let u = r.below(n);
                let mut v = r.below(n);
                if v == u {
                    v = (u + 1) % n;
                }
                match r.below(5) {
                    0 => {
                        // empty the pair
                        t.remove(u, v);
                        t.remove(v, u);
                    }
                    1 => {
                        // double the pair
                        t.add(u, v, 1);
                        t.add(v, u, 1);
                    }
                    2 => {
                        // keep the size, move one arc elsewhere: empty one
                        // pair and double another one
                        let had = t.remove(u, v) as usize + t.remove(v, u) as usize;
                        let mut added = 0;
                        for a in 0..n {
                            for b in 0..n {
                                if added < had && a != b && !t.has(a, b) && !(a == u && b == v) && !(a == v && b == u) {
                                    t.add(a, b, 1);
                                    added += 1;
                                }
                            }
                        }
                    }
                    3 => {
                        t.remove(u, v);
                    }
                    _ => {}
                }
            }
            return t;
        }
        "symmetric_pm1" => {
            let p = *r.pick(&[0.1, 0.3, 0.6]);
            for u in 0..n {
                for v in (u + 1)..n {
                    if r.chance(p) {
                        m.add(u, v, 1);
                        m.add(v, u, 1);
                    }
                }
            }
            if r.chance(0.5) {
                perturb(r, &mut m);
            }
        }
        _ => unreachable!(),
    }
    m
}

/// Replace one arc u->v by w->v (`tail`) or by u->w (`!tail`).
pub fn move_endpoint(r: &mut Rng, m: &mut Model, tail: bool) {
    let n = m.n();
    if n < 3 || m.size() == 0 {
        return;
    }
    let k = r.below(m.size());
    let (u, v) = *m.arcs.keys().nth(k).unwrap();
    for _ in 0..8 {
        let w = r.below(n);
        let (a, b) = if tail { (w, v) } else { (u, w) };
        if a != b && !m.has(a, b) {
            m.remove(u, v);
            m.add(a, b, 1);
            return;
        }
    }
}

/// Flip one random ordered pair.
pub fn perturb(r: &mut Rng, m: &mut Model) {
    let n = m.n();
    if n < 2 {
        return;
    }
    let u = r.below(n);
    let mut v = r.below(n);
    if u == v {
        v = (u + 1) % n;
    }
    if !m.remove(u, v) {
        m.add(u, v, 1);
    }
}

/// Order classes: small dense, medium, boundary, large.
pub fn order(r: &mut Rng, max: usize) -> usize {
    let n = match r.below(10) {
        0..=4 => r.range(1, 8),
        5..=6 => r.range(9, 40),
        7..=8 => *r.pick(&BOUNDARY_ORDERS),
        _ => r.range(100, 130),
    };
    n.min(max).max(1)
}

/// Orders for the algorithm properties: mostly small (dense inputs stay
/// cheap), sometimes medium, rarely on/over the 64 boundary or large.
static BIG_CAP: std::sync::atomic::AtomicUsize = std::sync::atomic::AtomicUsize::new(usize::MAX);

/// Upper bound for the large-order strata (slow engines set it low).
pub fn set_big_cap(cap: usize) {
    BIG_CAP.store(cap, std::sync::atomic::Ordering::Relaxed);
}

pub fn algo_order(r: &mut Rng, small_max: usize, big_max: usize) -> usize {
    let big_max = big_max.min(BIG_CAP.load(std::sync::atomic::Ordering::Relaxed)).max(1);
    match r.below(200) {
        0..=5 => (*r.pick(&[31usize, 32, 33, 63, 64, 65])).min(big_max),
        6..=8 => r.range(66, 130.max(66)).min(big_max),
        9 => (*r.pick(&[127usize, 128, 129, 192, 257])).min(big_max),
        _ => small_order(r, small_max),
    }
    .max(1)
}

/// A family that stays sparse (O(n) arcs) at any order.
pub fn sparse_family(r: &mut Rng) -> usize {
    // path, circuit, cycle, star, wheel, out_tree, in_tree, empty
    *r.pick(&[3usize, 4, 5, 6, 7, 12, 13, 1])
}

pub fn small_order(r: &mut Rng, max: usize) -> usize {
    match r.below(10) {
        0 => 1,
        1 => 2,
        2..=6 => r.range(3, max.min(8).max(3)).min(max),
        _ => r.range(1, max),
    }
}

/// A contiguous digraph of some family and an order up to `max`.
pub fn digraph(r: &mut Rng, max: usize) -> (usize, Model) {
    let fam = r.below(FAMILIES.len());
    let n = small_order(r, max);
    (fam, family(r, fam, n))
}

/// Relabel the largest vertex id to usize::MAX (the largest legal id) or, in
/// three cases of eight (chosen by the shape of the model, so that no PRNG
/// stream shifts), to another id far outside any buffer: usize::MAX - 1,
/// 2^63, 2^32.
pub fn with_max_id(m: &Model) -> Model {
    let Some(&top) = m.verts.iter().max() else { return m.clone() };
    let far = match (m.arcs.len() + 3 * top) % 8 {
        5 => 1usize << 32,
        6 => 1usize << 63,
        7 => usize::MAX - 1,
        _ => usize::MAX,
    };
    let f = |v: usize| if v == top { far } else { v };
    Model {
        verts: m.verts.iter().map(|&v| f(v)).collect(),
        arcs: m.arcs.iter().map(|(&(u, v), &w)| ((f(u), f(v)), w)).collect(),
    }
}

/// Relabel a contiguous digraph with strictly increasing sparse ids.
pub fn sparsify(r: &mut Rng, m: &Model) -> Model {
    let n = m.n();
    let mut ids: BTreeSet<usize> = BTreeSet::new();
    // draw from the pool first, then fill with small ids / offsets
    if n > 64 {
        // big inputs: strictly increasing ids with random gaps
        let mut next = r.below(3);
        while ids.len() < n {
            ids.insert(next);
            next += 1 + if r.chance(0.3) { r.below(5) } else { 0 };
        }
    }
    let mut guard = 0;
    while ids.len() < n {
        guard += 1;
        let c = match r.below(6) {
            0 => *r.pick(&SPARSE_POOL),
            1 | 2 => r.below(2 * n + 3),
            3 => 64 + r.below(4),
            // an id equal to the order (or one more): the first id an
            // order-sized buffer doesn't have
            4 => n + r.below(2),
            _ => *r.pick(&SPARSE_POOL) + r.below(3),
        };
        ids.insert(c);
        if guard > 10_000 {
            let top = ids.iter().max().map_or(0, |x| x + 1);
            ids.insert(top);
        }
    }
    let map: Vec<usize> = ids.into_iter().collect();
    let mut out = Model {
        verts: map.iter().copied().collect(),
        arcs: Default::default(),
    };
    for (&(u, v), &w) in &m.arcs {
        out.arcs.insert((map[u], map[v]), w);
    }
    out
}

#[derive(Clone, Copy, Debug, PartialEq, Eq)]
pub enum WClass {
    Unit,
    ZeroOne,
    Small,
    Large,
    Potentials,
    NegDag,
    MixedNeg,
}

/// Assign weights. For `Potentials` the result has negative arcs but no
/// negative circuit (w'(u,v) = w(u,v) + h(u) - h(v), w >= 0).
pub fn weights(r: &mut Rng, m: &mut Model, c: WClass) {
    let n = m.verts.iter().max().map_or(0, |x| x + 1);
    let h: Vec<i64> = (0..n).map(|_| r.irange(-15, 15)).collect();
    let keys: Vec<(usize, usize)> = m.arc_list();
    for (u, v) in keys {
        let w = match c {
            WClass::Unit => 1,
            WClass::ZeroOne => r.irange(0, 1),
            WClass::Small => r.irange(0, 9),
            WClass::Large => r.irange(0, 1_000_000),
            WClass::Potentials => r.irange(0, 9) + h[u] - h[v],
            WClass::NegDag => r.irange(-20, 20),
            WClass::MixedNeg => {
                if r.chance(0.3) {
                    r.irange(-5, -1)
                } else {
                    r.irange(0, 12)
                }
            }
        };
        m.arcs.insert((u, v), w);
    }
}

/// Vertex argument classes: in range, order, order + 1, far.
pub fn vertex_arg(r: &mut Rng, n: usize) -> usize {
    match r.below(12) {
        0 => n,
        1 => n + 1,
        2 => *r.pick(&[1000usize, 1 << 20, usize::MAX]),
        _ => r.below(n.max(1)),
    }
}

/// A set of distinct in-range sources: empty, single, multiple.
pub fn sources(r: &mut Rng, n: usize) -> Vec<usize> {
    let k = match r.below(10) {
        0 => 0,
        1..=5 => 1,
        6..=8 => r.range(2, 3),
        _ => r.range(1, n.max(1)),
    }
    .min(n);
    let mut all: Vec<usize> = (0..n).collect();
    r.shuffle(&mut all);
    all.truncate(k);
    all
}
