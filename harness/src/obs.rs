//! Full observation of a digraph through its public API, compared with the
//! model.

use crate::ctx::CaseOut;
use crate::model::Model;
use graaf::{Arcs, HasArc, Order, Size, Vertices};

/// ids worth probing: V plus ids just outside and a far id.
pub fn probe_ids(m: &Model) -> Vec<usize> {
    let mut ids: Vec<usize> = m.vert_list();
    let top = m.verts.iter().max().map_or(0, |x| x.wrapping_add(1));
    for x in [top, top.wrapping_add(1), m.n(), m.n() + 1, 1 << 20] {
        if !ids.contains(&x) {
            ids.push(x);
        }
    }
    ids
}

/// The provided Iterator methods (count, last, nth, size_hint, min, max,
/// fold) of a public iterator must agree with the sequence `next` yields.
pub fn iter_consistency<I, T>(o: &mut CaseOut, what: &str, mk: impl Fn() -> I)
where
    I: Iterator<Item = T>,
    T: Ord + Clone + std::fmt::Debug,
{
    let mut it = mk();
    let mut v: Vec<T> = Vec::new();
    while let Some(x) = it.next() {
        v.push(x);
        if v.len() > 100_000 {
            break;
        }
    }
    let n = v.len();
    let (lo, hi) = mk().size_hint();
    let mut ok = mk().count() == n
        && mk().last() == v.last().cloned()
        && mk().max() == v.iter().cloned().max()
        && mk().min() == v.iter().cloned().min()
        && mk().fold(0usize, |a, _| a + 1) == n
        && lo <= n
        && hi.is_none_or(|h| n <= h);
    for k in [0usize, n / 2, n.saturating_sub(1), n, n + 1] {
        ok = ok && mk().nth(k) == v.get(k).cloned();
    }
    // partially consumed (1, 2, 3 items), then the rest through fold-based
    // methods: last, count, fold, for_each, collect
    for k in 1..=3usize {
        if n < k + 1 {
            break;
        }
        let part = |k: usize| {
            let mut it = mk();
            for _ in 0..k {
                let _ = it.next();
            }
            it
        };
        ok = ok && part(k).last() == v.last().cloned();
        ok = ok && part(k).count() == n - k;
        ok = ok && part(k).fold(Vec::new(), |mut acc, x| {
            acc.push(x);
            acc
        }) == v[k..];
        let mut seen = Vec::new();
        part(k).for_each(|x| seen.push(x));
        ok = ok && seen == v[k..];
        ok = ok && part(k).collect::<Vec<T>>() == v[k..];
        ok = ok && mk().skip(k).max() == v[k..].iter().cloned().max();
    }
    o.check(ok, &format!("{what}:provided-Iterator-methods-disagree-with-next"), || format!("next() yields {v:?}; count {} last {:?} size_hint {:?}", mk().count(), mk().last(), (lo, hi)));
    // two live iterators over the same borrowed input, advanced in turns
    // (a, b, b, a, a, a, b, ...): each has to yield what it yields alone, and
    // its size_hint has to bound what is still to come at every step
    if n <= 4096 {
        let (mut a, mut b) = (mk(), mk());
        let (mut va, mut vb): (Vec<T>, Vec<T>) = (Vec::new(), Vec::new());
        let (mut da, mut db) = (false, false);
        let mut hint_ok = true;
        let mut turn = 0usize;
        while !(da && db) && va.len() + vb.len() <= 2 * n + 8 {
            let run = 1 + turn % 3;
            for _ in 0..run {
                let (it, out, done) = if turn % 2 == 0 { (&mut a, &mut va, &mut da) } else { (&mut b, &mut vb, &mut db) };
                if *done {
                    break;
                }
                let (l, h) = it.size_hint();
                let left = n.saturating_sub(out.len());
                hint_ok = hint_ok && l <= left && h.is_none_or(|h| left <= h);
                match it.next() {
                    Some(x) => out.push(x),
                    None => *done = true,
                }
            }
            turn += 1;
        }
        o.check(va == v && vb == v, &format!("{what}:two-live-iterators-advanced-in-turns-differ-from-one-alone"), || {
            crate::ctx::clip(&format!("alone {v:?}; first {va:?}; second {vb:?}"))
        });
        o.check(hint_ok, &format!("{what}:size_hint-does-not-bound-the-remaining-items"), || crate::ctx::clip(&format!("sequence {v:?}")));
    }
}

/// A clone of an iterator, taken fresh or in mid-search, is an independent
/// iterator in the same state: the original (advanced in turns with its
/// clone) still yields what it yields alone, the clone yields the same
/// remainder, and a clone that outlives its original does too.
pub fn clone_midway<I, T>(o: &mut CaseOut, what: &str, mk: impl Fn() -> I)
where
    I: Iterator<Item = T> + Clone,
    T: Ord + Clone + std::fmt::Debug,
{
    let v: Vec<T> = mk().take(100_000).collect();
    let n = v.len();
    if n > 4096 {
        return;
    }
    let mut ks = vec![0usize, 1.min(n), n / 2];
    ks.dedup();
    for k in ks {
        let mut a = mk();
        let mut va: Vec<T> = Vec::new();
        for _ in 0..k {
            if let Some(x) = a.next() {
                va.push(x);
            }
        }
        let mut b = a.clone();
        let mut vb = va.clone();
        let (mut da, mut db) = (false, false);
        let mut turn = 0usize;
        while !(da && db) && va.len() + vb.len() <= 2 * n + 8 {
            let (it, out, done) = if turn % 3 == 0 { (&mut b, &mut vb, &mut db) } else { (&mut a, &mut va, &mut da) };
            if !*done {
                match it.next() {
                    Some(x) => out.push(x),
                    None => *done = true,
                }
            }
            turn += 1;
        }
        o.check(va == v, &format!("{what}:iterator-disturbed-by-a-live-clone-of-it"), || crate::ctx::clip(&format!("alone {v:?}; with a clone taken after {k} items {va:?}")));
        o.check(vb == v, &format!("{what}:clone-taken-in-mid-search-does-not-continue-the-search"), || crate::ctx::clip(&format!("alone {v:?}; clone taken after {k} items continues to {vb:?}")));
        let c = {
            let mut a = mk();
            for _ in 0..k {
                let _ = a.next();
            }
            a.clone()
        };
        let mut vc: Vec<T> = v[..k.min(n)].to_vec();
        vc.extend(c.take(n + 8));
        o.check(vc == v, &format!("{what}:clone-that-outlives-its-original-differs"), || crate::ctx::clip(&format!("alone {v:?}; clone taken after {k} items, original dropped: {vc:?}")));
    }
}

fn strictly_ascending<T: Ord>(xs: &[T]) -> bool {
    xs.windows(2).all(|p| p[0] < p[1])
}

/// Compare order(), vertices(), arcs(), size() and has_arc on all pairs of
/// probe ids with the model. `tag` prefixes violation kinds.
pub fn observe<D>(d: &D, m: &Model, o: &mut CaseOut, tag: &str, pairs: bool)
where
    D: Order + Vertices + Arcs + Size + HasArc,
{
    o.eq(&format!("{tag}:order"), &d.order(), &m.n());
    let vs: Vec<usize> = d.vertices().collect();
    o.check(strictly_ascending(&vs), &format!("{tag}:vertices-not-strictly-ascending"), || {
        format!("{vs:?}")
    });
    o.eq(&format!("{tag}:vertices"), &vs, &m.vert_list());
    let arcs: Vec<(usize, usize)> = d.arcs().collect();
    o.check(strictly_ascending(&arcs), &format!("{tag}:arcs-not-strictly-ascending"), || {
        crate::ctx::clip(&format!("{arcs:?}"))
    });
    o.eq(&format!("{tag}:arcs"), &arcs, &m.arc_list());
    o.check(
        arcs.iter().all(|&(u, v)| u != v && m.verts.contains(&u) && m.verts.contains(&v)),
        &format!("{tag}:invalid-arc-observable"),
        || crate::ctx::clip(&format!("{arcs:?}")),
    );
    o.eq(&format!("{tag}:size"), &d.size(), &m.size());
    if pairs {
        let ids = probe_ids(m);
        let mut bad = None;
        for &u in &ids {
            for &v in &ids {
                if d.has_arc(u, v) != m.has(u, v) {
                    bad = Some((u, v));
                }
            }
        }
        o.check(bad.is_none(), &format!("{tag}:has_arc"), || {
            let (u, v) = bad.unwrap();
            format!("has_arc({u},{v}) = {} but model says {}", !m.has(u, v), m.has(u, v))
        });
    }
}

/// Weighted observation for AdjacencyListWeighted.
pub fn observe_w<W: Copy + Default + Ord + std::hash::Hash + std::fmt::Debug + Send + Sync + 'static>(
    d: &graaf::AdjacencyListWeighted<W>,
    m: &Model,
    o: &mut CaseOut,
    tag: &str,
    to_i64: impl Fn(&W) -> i64,
) {
    use graaf::{ArcWeight, ArcsWeighted};
    let aw: Vec<(usize, usize, i64)> = d.arcs_weighted().map(|(u, v, w)| (u, v, to_i64(w))).collect();
    o.check(
        aw.windows(2).all(|p| (p[0].0, p[0].1) < (p[1].0, p[1].1)),
        &format!("{tag}:arcs_weighted-not-strictly-ascending"),
        || crate::ctx::clip(&format!("{aw:?}")),
    );
    o.eq(&format!("{tag}:arcs_weighted"), &aw, &m.arc_list_w());
    let ids = probe_ids(m);
    let mut bad = None;
    for &u in &ids {
        for &v in &ids {
            if d.arc_weight(u, v).map(&to_i64) != m.w(u, v) {
                bad = Some((u, v));
            }
        }
    }
    o.check(bad.is_none(), &format!("{tag}:arc_weight"), || {
        let (u, v) = bad.unwrap();
        format!("arc_weight({u},{v}) = {:?} but model says {:?}", d.arc_weight(u, v).map(&to_i64), m.w(u, v))
    });
}
